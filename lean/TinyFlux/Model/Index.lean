import TinyFlux.Model.AL
import TinyFlux.Model.Query
import TinyFlux.Generated.Utils
/-!
# Model of `tinyflux/index.py`

The seven attributes of `Index` and `build / insert / remove / update / _reset / invalidate /
search / get_*`, written to mirror the code. The three inverted maps are instances of one generic
posting map (`PMap`); the two-level `_tags` dict is flattened to its (key, value) pairs, which is
invisible in every answer (answers are sets or sorted lists). Instants are integer microseconds:
`datetime.timestamp()` is an order embedding on the supported range (trusted base, see C08).
The time search calls the `find_*` helpers that are regenerated from `utils.py` on every run.
-/
namespace TinyFlux.Model
open TinyFlux.Spec TinyFlux.Py

structure Index where
  numItems : Nat := 0
  ts : List Int := []                              -- `_timestamps`, ascending
  pos : List Nat := []                             -- `_storage_pos_sorted_by_ts`
  meas : PMap String Unit := []                    -- `_measurements`
  tags : PMap (String × Option String) Unit := []  -- `_tags`, flattened
  fields : PMap String (Option Num) := []          -- `_fields`
  valid : Bool := true
deriving Repr

namespace Index

/-- `Index._reset` -/
def reset (_ : Index) : Index := {}
/-- `Index.invalidate` -/
def invalidate (i : Index) : Index := { i.reset with valid := false }

/-- `Index.empty` -/
def empty (i : Index) : Bool :=
  i.numItems == 0 && i.tags.isEmpty && i.fields.isEmpty && i.meas.isEmpty && i.ts.isEmpty

/-- `Index.latest_time` (caller guarantees non-empty) -/
def latestTime (i : Index) : Option Int := i.ts.getLast?

/-- `_insert_measurements`, `_insert_tags`, `_insert_fields` for one point at position `n` -/
def insertMaps (i : Index) (n : Nat) (p : Point) : Index :=
  { i with
    meas := i.meas.insert p.meas n (),
    tags := p.tags.foldl (fun acc kv => acc.insert (kv.1, kv.2) n ()) i.tags,
    fields := p.fields.foldl (fun acc kv => acc.insert kv.1 n kv.2) i.fields }

/-- the loop of `Index.build` over points `l` starting at position `a` -/
def buildFrom (i : Index) : List Point → Nat → Index
  | [], _ => i
  | p :: t, a => buildFrom ({ (i.insertMaps a p) with numItems := i.numItems + 1 }) t (a + 1)

/-- `Index.build`: maps by one pass, time arrays by a stable sort of `(timestamp, position)` -/
def build (l : List Point) : Index :=
  let i := buildFrom {} l 0
  let buf := (l.zipIdx.map (fun pi => (pi.1.time, pi.2))).mergeSort (fun a b => decide (a.1 ≤ b.1))
  { i with ts := buf.map (·.1), pos := buf.map (·.2), valid := true }

/-- `Index.insert([p])`: append (caller guarantees non-decreasing time) -/
def insert (i : Index) (p : Point) : Index :=
  let n := i.ts.length
  let i' := { i with numItems := i.numItems + 1, pos := i.pos ++ [n], ts := i.ts ++ [p.time] }
  i'.insertMaps n p

/-- `Index.remove(r_items)` -/
def remove (i : Index) (r : List Nat) : Index :=
  let z := (i.ts.zip i.pos).filter (fun tp => !r.contains tp.2)
  { i with
    ts := z.map (·.1), pos := z.map (·.2),
    meas := i.meas.remove r.contains, tags := i.tags.remove r.contains,
    fields := i.fields.remove r.contains,
    numItems := i.numItems - r.length }

/-- `Index.update(u_items)`: `u_items[i] if i in u_items else i` -/
def update (i : Index) (u : List (Nat × Nat)) : Index :=
  let f := fun n => (u.lookup n).getD n
  { i with pos := i.pos.map f, meas := i.meas.renumber f, tags := i.tags.renumber f,
           fields := i.fields.renumber f }

/-! ## search -/

def inter (a b : List Nat) : List Nat := a.filter b.contains
def union (a b : List Nat) : List Nat := dedup (a ++ b)
def compl (n : Nat) (a : List Nat) : List Nat := (List.range n).filter (fun i => !a.contains i)

/-- result of a generated `find_*` as a list position -/
def findPos (f : V → V → Except PyErr V) (ts : List Int) (x : Int) : Except Exc (Option Nat) :=
  match f (.list ts) (.int x) with
  | .ok (.int n) => if 0 ≤ n then pure (some n.toNat) else throw .type
  | .ok .none => pure none
  | _ => throw .type

/-- the run of positions whose timestamp equals `x`, starting at `m` (the `while` loop of `==`/`!=`) -/
def equalRun (i : Index) (m : Nat) (x : Int) : List Nat :=
  (((i.ts.zip i.pos).drop m).takeWhile (fun tp => tp.1 == x)).map (·.2)

/-- `Index._search_timestamps` -/
def searchTs (i : Index) : Leaf → Except Exc (List Nat)
  | .cmp .eq (.time x) => do
      match ← findPos Generated.find_eq i.ts x with
      | none => pure []
      | some m => pure (dedup (i.equalRun m x))
  | .cmp .ne (.time x) => do
      match ← findPos Generated.find_eq i.ts x with
      | none => pure (dedup i.pos)
      | some m => let run := i.equalRun m x; pure ((dedup i.pos).filter (fun p => !run.contains p))
  | .cmp .lt (.time x) => do
      match ← findPos Generated.find_lt i.ts x with
      | none => pure []
      | some m => pure (dedup (i.pos.take (m + 1)))
  | .cmp .le (.time x) => do
      match ← findPos Generated.find_le i.ts x with
      | none => pure []
      | some m => pure (dedup (i.pos.take (m + 1)))
  | .cmp .gt (.time x) => do
      match ← findPos Generated.find_gt i.ts x with
      | none => pure []
      | some m => pure (dedup (i.pos.drop m))
  | .cmp .ge (.time x) => do
      match ← findPos Generated.find_ge i.ts x with
      | none => pure []
      | some m => pure (dedup (i.pos.drop m))
  | l => do   -- generic path: test every timestamp
      let hits ← (i.pos.zip i.ts).filterMapM (fun pt => do
        if ← callOn l (.time pt.2) then pure (some pt.1) else pure none)
      pure (dedup hits)

/-- `Index._search_measurement` -/
def searchMeas (i : Index) (l : Leaf) : Except Exc (List Nat) := do
  let hits ← i.meas.mapM (fun kv => do
    if ← callOn l (.str kv.1) then pure (kv.2.map (·.1)) else pure [])
  pure (dedup hits.flatten)

/-- `Index._search_tags`: only entries under the query's key resolve -/
def searchTags (i : Index) (k : String) (l : Leaf) : Except Exc (List Nat) := do
  let hits ← i.tags.mapM (fun kv => do
    if kv.1.1 == k then
      if ← callOn l (ofOptStr kv.1.2) then pure (kv.2.map (·.1)) else pure []
    else pure [])
  pure (dedup hits.flatten)

/-- `Index._search_fields`: every stored value under the query's key is resolved and tested -/
def searchFields (i : Index) (k : String) (l : Leaf) : Except Exc (List Nat) := do
  let hits ← (i.fields.posting k).filterMapM (fun ip => do
    if ← callOn l (ofOptNum ip.2) then pure (some ip.1) else pure none)
  pure (dedup hits)

/-- `Index._search_helper` -/
def search (i : Index) : Query → Except Exc (List Nat)
  | .and q r => do let a ← i.search q; let b ← i.search r; pure (inter a b)
  | .or q r => do let a ← i.search q; let b ← i.search r; pure (union a b)
  | .not (.field k l) => do
      let _ ← i.searchFields k l           -- evaluated, then replaced by "every item" (candidates)
      pure (List.range i.numItems)
  | .not q => do let a ← i.search q; pure (compl i.numItems a)
  | .noop => pure (List.range i.numItems)
  | .time l => i.searchTs l
  | .meas l => i.searchMeas l
  | .tag k l => i.searchTags k l
  | .field k l => i.searchFields k l

/-! ## getters -/

def measItems (i : Index) (m : String) : List Nat := (i.meas.posting m).map (·.1)
def hasMeas (i : Index) (m : String) : Bool := (lookupAL m i.meas).isSome
def meets (items : List Nat) (posting : List Nat) : Bool := posting.any items.contains

def getMeasurements (i : Index) : List String := keysAL i.meas

def getTagKeys (i : Index) (m : Option String) : List String :=
  match m with
  | none => dedup (i.tags.map (·.1.1))
  | some m =>
    if !i.hasMeas m then [] else
    let items := i.measItems m
    dedup ((i.tags.filter (fun kv => meets items (kv.2.map (·.1)))).map (·.1.1))

/-- `Index.get_tag_values`: key ↦ set of values; the four cases of the code -/
def getTagValues (i : Index) (keys : List String) (m : Option String) : AL String (List (Option String)) :=
  let add (acc : AL String (List (Option String))) (k : String) (v : Option String) :=
    alterAL k [] (fun vs => if vs.contains v then vs else vs ++ [v]) acc
  match m, keys.isEmpty with
  | none, true => i.tags.foldl (fun acc kv => add acc kv.1.1 kv.1.2) []
  | some m, true =>
    if !i.hasMeas m then [] else
    let items := i.measItems m
    i.tags.foldl (fun acc kv => if meets items (kv.2.map (·.1)) then add acc kv.1.1 kv.1.2 else acc) []
  | none, false =>
    let init : AL String (List (Option String)) := (dedup keys).map (fun k => (k, []))
    i.tags.foldl (fun acc kv => if keys.contains kv.1.1 then add acc kv.1.1 kv.1.2 else acc) init
  | some m, false =>
    let init : AL String (List (Option String)) := (dedup keys).map (fun k => (k, []))
    if !i.hasMeas m then init else
    let items := i.measItems m
    i.tags.foldl (fun acc kv =>
      if keys.contains kv.1.1 && meets items (kv.2.map (·.1)) then add acc kv.1.1 kv.1.2 else acc) init

def getFieldKeys (i : Index) (m : Option String) : List String :=
  match m with
  | none => keysAL i.fields
  | some m =>
    if !i.hasMeas m then [] else
    let items := i.measItems m
    (i.fields.filter (fun kv => meets items (kv.2.map (·.1)))).map (·.1)

def getFieldValues (i : Index) (k : String) (m : Option String) : List (Option Num) :=
  match m with
  | none => (i.fields.posting k).map (·.2)
  | some m =>
    if !i.hasMeas m then [] else
    let items := i.measItems m
    ((i.fields.posting k).filter (fun ip => items.contains ip.1)).map (·.2)

/-- `Index.get_timestamps`: sorted back into storage order -/
def getTimestamps (i : Index) (m : Option String) : List Int :=
  let z := i.ts.zip i.pos
  let z := match m with
    | none => some z
    | some m => if !i.hasMeas m then none else
        let items := i.measItems m
        some (z.filter (fun tp => items.contains tp.2))
  match z with
  | none => []
  | some z => (z.mergeSort (fun a b => decide (a.2 ≤ b.2))).map (·.1)

end Index
end TinyFlux.Model
