/-!
# Model of the I/O protocol of `CSVStorage` (`storages.py`) over a two-file system

A file is the list of rows the operating system holds for it (what a fresh reader sees, and what
survives the death of the process); each open handle adds a user-space buffer of rows not yet handed
over (`flush` hands them over, `close` flushes, a process death loses them). Rows are abstract (`R`).
The steps are the I/O calls the code makes, as recorded by the run-time proxies of
`harness/ioproxy.py`; the step lists of the storage operations are `appendSteps`, `scanSteps`,
`rewriteSteps`, `noopRewriteSteps`, `resetSteps`.

Trusted (the OS below Python's I/O calls): a process death loses exactly the unflushed user-space
buffers; a single `write` of one row is not torn; `os.replace` is atomic; `fsync` durability against
power loss is *not* claimed.
-/
namespace TinyFlux.Model.IO

variable {R : Type}

structure FS (R : Type) where
  primary : List R               -- rows the OS holds for the database path
  pendP : List R := []           -- unflushed rows in the primary handle's buffer
  posEnd : Bool := true          -- primary handle positioned at end of file (else: at 0)
  pOpen : Bool := true           -- primary handle open
  temp : Option (List R) := none -- the temporary file, if it exists on disk
  pendT : List R := []
  tOpen : Bool := false
deriving Repr

inductive Step (R : Type)
  | pOpen | pClose | pSeek0 | pSeekEnd | pRead | pWrite (r : R) | pFlush | pFsync | pTruncate
  | tCreate | tSeekEnd | tWrite (r : R) | tFlush | tFsync | tTruncate | tClose | tUnlink
  | replace
deriving Repr

/-- effect of one I/O call -/
def exec (fs : FS R) : Step R → FS R
  | .pOpen => { fs with pOpen := true, posEnd := false }
  | .pClose => { fs with primary := fs.primary ++ fs.pendP, pendP := [], pOpen := false }   -- close flushes
  | .pSeek0 => { fs with primary := fs.primary ++ fs.pendP, pendP := [], posEnd := false }  -- seek flushes
  | .pSeekEnd => { fs with primary := fs.primary ++ fs.pendP, pendP := [], posEnd := true }
  | .pRead => fs
  | .pWrite r => { fs with pendP := fs.pendP ++ [r] }
  | .pFlush => { fs with primary := fs.primary ++ fs.pendP, pendP := [] }
  | .pFsync => fs
  | .pTruncate =>                                   -- `truncate()` at the current position (flushes first)
      if fs.posEnd then { fs with primary := fs.primary ++ fs.pendP, pendP := [] }
      else { fs with primary := [], pendP := [] }
  | .tCreate => { fs with temp := some [], pendT := [], tOpen := true }
  | .tSeekEnd => { fs with temp := fs.temp.map (· ++ fs.pendT), pendT := [] }
  | .tWrite r => { fs with pendT := fs.pendT ++ [r] }
  | .tFlush => { fs with temp := fs.temp.map (· ++ fs.pendT), pendT := [] }
  | .tFsync => fs
  | .tTruncate => { fs with temp := fs.temp.map (· ++ fs.pendT), pendT := [] }
  | .tClose => { fs with temp := fs.temp.map (· ++ fs.pendT), pendT := [], tOpen := false }
  | .tUnlink => { fs with temp := none }
  | .replace =>                                     -- `os.replace(temp, primary)`: atomic
      match fs.temp with
      | some t => { fs with primary := t, temp := none }
      | none => fs

def run (fs : FS R) (steps : List (Step R)) : FS R := steps.foldl exec fs

/-- what a fresh reader finds after the process died: only what reached the OS -/
def afterCrash (fs : FS R) : List R := fs.primary

/-- what a fresh reader finds after an orderly `close` -/
def afterClose (fs : FS R) : List R := fs.primary ++ fs.pendP

/-- a step that can change what the database file holds -/
def Step.mutatesPrimary : Step R → Bool
  | .pWrite _ | .pTruncate | .replace => true
  | _ => false

def Step.isRead : Step R → Bool
  | .pRead => true
  | _ => false

/-! ## the step lists of the storage operations -/

/-- `CSVStorage.append([row])` on the primary handle, once per inserted point -/
def appendSteps (flush : Bool) (rows : List R) : List (Step R) :=
  rows.flatMap fun r =>
    if flush then [.pSeekEnd, .pWrite r, .pFlush, .pFsync, .pTruncate] else [.pSeekEnd, .pWrite r]

/-- iterating storage: `seek(0)` and reading (consecutive reads are one step) -/
def scanSteps : List (Step R) := [.pSeek0, .pRead]

/-- `append([row], temporary=True)` -/
def stageRow (flush : Bool) (r : R) : List (Step R) :=
  if flush then [.tSeekEnd, .tWrite r, .tFlush, .tFsync, .tTruncate] else [.tSeekEnd, .tWrite r]

/-- the streaming loop of remove / update: read every row, stage the rows of the new contents
    (`none` = the row is dropped) -/
def streamSteps (flush : Bool) : List (Option R) → List (Step R)
  | [] => [.pRead]                                   -- the read that hits end of file
  | none :: t => .pRead :: streamSteps flush t
  | some r :: t => .pRead :: stageRow flush r ++ streamSteps flush t

/-- `_swap_temp_with_primary` then `_cleanup_temp_storage` -/
def swapSteps : List (Step R) := [.tFlush, .tFsync, .pClose, .replace, .pOpen]

/-- a remove / update that changes something: temp file, stream, swap, [rebuild read], cleanup -/
def rewriteSteps (flush : Bool) (rows : List (Option R)) (rebuild : Bool) : List (Step R) :=
  [.tCreate, .pSeek0] ++ streamSteps flush rows ++ swapSteps ++
    (if rebuild then scanSteps else []) ++ [.tClose]

/-- a remove / update that turns out to change nothing: the temp file is discarded -/
def noopRewriteSteps (flush : Bool) (rows : List (Option R)) (scanned : Bool) : List (Step R) :=
  [.tCreate] ++ (if scanned then .pSeek0 :: streamSteps flush rows else []) ++ [.tClose, .tUnlink]

/-- `_write([])`: `seek(0); truncate()` -/
def resetSteps : List (Step R) := [.pSeek0, .pTruncate]

/-- a remove that matches every row (or leaves none): reset inside a temp-storage operation -/
def resetInTempSteps (flush : Bool) (rows : List (Option R)) (scanned : Bool) : List (Step R) :=
  [.tCreate] ++ (if scanned then .pSeek0 :: streamSteps flush rows else []) ++ resetSteps ++ [.tClose, .tUnlink]

/-- the rows of the new contents -/
def newRows (rows : List (Option R)) : List R := rows.filterMap id

/-- a file system state between operations: handle open at some position, nothing buffered, no temp file -/
structure Quiet (fs : FS R) : Prop where
  noPend : fs.pendP = []
  noTemp : fs.temp = none
  noPendT : fs.pendT = []

end TinyFlux.Model.IO
