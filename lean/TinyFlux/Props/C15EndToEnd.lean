import TinyFlux.Lemmas.IOOps
/-! # C15, end to end (database model ⋈ I/O model) -/
namespace TinyFlux.Props.C15
open TinyFlux.Model TinyFlux.Model.IO TinyFlux.Spec

/-- no read operation (queries, getters, len, iteration, all, reindex), in any state, makes an I/O call that
    can change the database file -/
theorem every_read_operation_leaves_the_file_alone (s : State) (flush : Bool) (op : Op)
    (hr : isRead op = true) : ∀ st ∈ opSteps s flush op, st.mutatesPrimary = false :=
  read_op_steps_do_not_mutate s flush op hr

/-- a remove / drop_measurement / update that reports 0 or raises makes no I/O call that can change the
    database file -/
theorem every_noop_write_leaves_the_file_alone (s : State) (hs : Inv s) (flush : Bool) (op : Op)
    (hop : (∃ q m, op = .remove q m) ∨ (∃ n, op = .drop n) ∨ (∃ a q u m, op = .update a q u m))
    (hok : OpOK s.cfg op) (hm : MeasOK op)
    (hout : (s.step op).2 = .nat 0 ∨ ∃ e, (s.step op).2 = .err e) :
    ∀ st ∈ opSteps s flush op, st.mutatesPrimary = false :=
  noop_write_steps_do_not_mutate s hs flush op hop hok hm hout

/-- when any operation has completed, no temp file exists -/
theorem every_operation_removes_its_temp_file (s : State) (hs : Inv s) (op : Op)
    (hok : OpOK s.cfg op) (hm : MeasOK op) (fs : FS Point) (hfs : FileOf s fs) :
    (run fs (opSteps s true op)).temp = none :=
  (op_file_holds_contents s hs op hok hm fs hfs).2.noTemp

end TinyFlux.Props.C15
