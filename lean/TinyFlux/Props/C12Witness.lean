import TinyFlux.Props.C12
import TinyFlux.Props.C12EndToEnd
/-!
# C12 — non-vacuity witness

The hypotheses of `every_operation_is_crash_atomic` are jointly satisfied by a CSV database with auto-indexing
holding three points, the file that goes with it, and concrete operations; the crash point `k` is taken in the
middle of a rewrite (temp file half written), just after the atomic replace, and in the middle of an insert, so
that each of the three disjuncts of the conclusion is realised by a concrete instance.
(The concrete instance — configuration, points, state, file, operations, and the proofs of `Inv`, `FileOf`, `OpOK`,
`MeasOK` — is the same as in `C04Witness.lean`, repeated here so that the file stands alone.)
-/
namespace TinyFlux.Props.C12
open TinyFlux.Model TinyFlux.Model.IO TinyFlux.Spec

/-! ## the concrete instance -/

/-- CSV storage (the model's `norm` for CSV, as in `Driver/ModelMain.lean`), auto-indexing on -/
def witness_cfg : Cfg := { autoIndex := true, norm := id }

def witness_p1 : Point :=
  { time := 1000000, meas := "cpu", tags := [("host", some "a")], fields := [("load", some (.fin 1))] }
def witness_p2 : Point :=
  { time := 2000000, meas := "cpu", tags := [("host", some "b")], fields := [("load", some (.fin (5/2)))] }
def witness_p3 : Point :=
  { time := 3000000, meas := "mem", tags := [("host", some "a"), ("dc", none)], fields := [("free", none)] }
def witness_p4 : Point :=
  { time := 4000000, meas := "cpu", tags := [("host", some "c")], fields := [("load", some (.fin 3))] }
def witness_p5 : Point :=
  { time := 1500000, meas := "disk", tags := [], fields := [("used", some (.fin (-7)))] }
/-- `witness_p2` after the update below -/
def witness_p2' : Point :=
  { time := 2000000, meas := "cpu", tags := [("host", some "b")], fields := [("load", some (.fin 7))] }

/-- the history that builds the state: two `insert` calls -/
def witness_history : List Op := [.insert [some witness_p1, some witness_p2] none, .insert [some witness_p3] none]

/-- the state reached from the empty database -/
def witness_s : State := (runM (init witness_cfg) witness_history).1

/-- the file that goes with it: the three rows, nothing buffered, no temp file, handle open at the end -/
def witness_fs : FS Point := { primary := [witness_p1, witness_p2, witness_p3] }

/-- `db.remove(TagQuery().host == "b")`: removes the second of the three points -/
def witness_remove : Op := .remove (.tag "host" (.cmp .eq (.str "b"))) none
/-- `db.update(TagQuery().host == "b", fields={"load": 7})`: changes the second point -/
def witness_setLoad (v : Option Num) : Upd :=
  { time := none, meas := none, tags := none, fields := some (fun _ => .ok [("load", v)]),
    unsetTags := [], unsetFields := [] }
def witness_update : Op := .update false (.tag "host" (.cmp .eq (.str "b"))) (witness_setLoad (some (.fin 7))) none
/-- `db.insert_multiple([p4, p5])` (the second one out of time order) -/
def witness_insert : Op := .insert [some witness_p4, some witness_p5] none
/-- `db.count(MeasurementQuery() == "cpu")` -/
def witness_count : Op := .count (.meas (.cmp .eq (.str "cpu"))) none
/-- a remove that matches nothing -/
def witness_remove0 : Op := .remove (.tag "host" (.cmp .eq (.str "zzz"))) none

/-! ## the hypotheses hold -/

theorem witness_good_of_wf (p : Point) (h : WFPoint p) : Good witness_cfg p := ⟨h, rfl⟩

theorem witness_history_ok : OpsOK witness_cfg witness_history := by
  intro op hop
  simp only [witness_history, List.mem_cons, List.not_mem_nil, or_false] at hop
  rcases hop with rfl | rfl
  · refine ⟨?_, by simp [MeasOK]⟩
    intro p hp
    simp only [List.mem_cons, Option.some.injEq, List.not_mem_nil, or_false] at hp
    rcases hp with rfl | rfl <;> exact witness_good_of_wf _ ⟨by decide, by decide⟩
  · refine ⟨?_, by simp [MeasOK]⟩
    intro p hp
    simp only [List.mem_cons, Option.some.injEq, List.not_mem_nil, or_false] at hp
    subst hp
    exact witness_good_of_wf _ ⟨by decide, by decide⟩

/-- the state is reachable, hence satisfies the invariant -/
theorem witness_inv : Inv witness_s := (reachable witness_cfg witness_history witness_history_ok).1

theorem witness_storage : witness_s.storage = [witness_p1, witness_p2, witness_p3] := rfl
theorem witness_index_valid : witness_s.index.valid = true := rfl
theorem witness_index_nontrivial : witness_s.index.numItems = 3 ∧ witness_s.index.ts = [1000000, 2000000, 3000000] := ⟨rfl, rfl⟩

theorem witness_fileOf : FileOf witness_s witness_fs := ⟨rfl, ⟨rfl, rfl, rfl⟩⟩

/-! ### `OpOK` / `MeasOK` of the four operations -/

theorem witness_remove_ok : OpOK witness_s.cfg witness_remove ∧ MeasOK witness_remove :=
  ⟨trivial, by simp [MeasOK, witness_remove]⟩
theorem witness_count_ok : OpOK witness_s.cfg witness_count ∧ MeasOK witness_count :=
  ⟨trivial, by simp [MeasOK, witness_count]⟩

theorem witness_insert_ok : OpOK witness_s.cfg witness_insert ∧ MeasOK witness_insert := by
  refine ⟨?_, by simp [MeasOK, witness_insert]⟩
  intro p hp
  simp only [List.mem_cons, Option.some.injEq, List.not_mem_nil, or_false] at hp
  rcases hp with rfl | rfl <;> exact witness_good_of_wf _ ⟨by decide, by decide⟩

private theorem mem_keys_dictSet {V : Type} (d : List (String × V)) (k : String) (v : V) (k' : String)
    (h : k' ∈ (dictSet d k v).map (·.1)) : k' = k ∨ k' ∈ d.map (·.1) := by
  induction d with
  | nil => simpa [dictSet] using h
  | cons kv t ih =>
    obtain ⟨a, b⟩ := kv
    unfold dictSet at h
    by_cases hk : (a == k) = true
    · simp only [hk, if_true, List.map_cons, List.mem_cons] at h
      exact Or.inr (by simpa using h)
    · simp only [hk, Bool.false_eq_true, if_false, List.map_cons, List.mem_cons] at h
      rcases h with h | h
      · exact Or.inr (by simp [h])
      · rcases ih h with h | h
        · exact Or.inl h
        · exact Or.inr (by simp [h])

private theorem nodup_keys_dictSet {V : Type} (d : List (String × V)) (k : String) (v : V)
    (h : (d.map (·.1)).Nodup) : ((dictSet d k v).map (·.1)).Nodup := by
  induction d with
  | nil => simp [dictSet]
  | cons kv t ih =>
    obtain ⟨a, b⟩ := kv
    simp only [List.map_cons, List.nodup_cons] at h
    unfold dictSet
    by_cases hk : (a == k) = true
    · simpa [hk] using h
    · simp only [hk, Bool.false_eq_true, if_false, List.map_cons, List.nodup_cons]
      refine ⟨?_, ih h.2⟩
      intro hm
      rcases mem_keys_dictSet t k v a hm with e | e
      · exact hk (by simp [e])
      · exact h.1 e

private theorem nodup_keys_eraseKeys {V : Type} (d : List (String × V)) (ks : List String)
    (h : (d.map (·.1)).Nodup) : ((eraseKeys d ks).map (·.1)).Nodup :=
  List.Nodup.sublist (List.Sublist.map _ List.filter_sublist) h

/-- `fields={"load": v}` maps storable points to storable points: the quantified `OpOK` hypothesis, by hand -/
theorem witness_setLoad_ok (all : Bool) (q : Query) (v : Option Num) :
    OpOK witness_s.cfg (.update all q (witness_setLoad v) none) ∧ MeasOK (.update all q (witness_setLoad v) none) := by
  refine ⟨?_, by simp [MeasOK]⟩
  intro p p' hp hu
  have e : p' = { time := p.time, meas := p.meas, tags := eraseKeys p.tags [],
                  fields := eraseKeys (dictSet p.fields "load" v) [] } := by
    simpa [upd, witness_setLoad, applyOpt, bind, Except.bind, pure, Except.pure, dictUpdate] using hu.symm
  subst e
  exact witness_good_of_wf _ ⟨nodup_keys_eraseKeys _ _ hp.1.1,
    nodup_keys_eraseKeys _ _ (nodup_keys_dictSet _ _ _ hp.1.2)⟩

theorem witness_update_ok : OpOK witness_s.cfg witness_update ∧ MeasOK witness_update :=
  witness_setLoad_ok _ _ _

/-! ## the theorem, instantiated -/

/-- the steps of the remove, by index: 0 `T.create`, 1 `P.seek0`, 2 `P.read`, 3–7 stage `p1`, 8 `P.read` (`p2` dropped),
    9 `P.read`, 10–14 stage `p3`, 15 `P.read` (EOF), 16 `T.flush`, 17 `T.fsync`, 18 `P.close`, 19 `replace`,
    20 `P.open`, 21 `T.close` -/
theorem witness_remove_steps : (opSteps witness_s true witness_remove).length = 22 := by decide +kernel

example : 5 < (opSteps witness_s true witness_remove).length := by decide +kernel

/-- a crash after 12 of the 22 calls of the remove: in the middle of the rewrite -/
theorem witness_remove_crash_mid :
    afterCrash (run witness_fs ((opSteps witness_s true witness_remove).take 12)) = witness_s.storage ∨
    afterCrash (run witness_fs ((opSteps witness_s true witness_remove).take 12)) = (witness_s.step witness_remove).1.storage ∨
    ∃ pts m j, witness_remove = .insert pts m ∧
      afterCrash (run witness_fs ((opSteps witness_s true witness_remove).take 12)) =
        witness_s.storage ++ (insertedRows witness_s.cfg m pts).take j :=
  every_operation_is_crash_atomic witness_s witness_inv witness_remove witness_remove_ok.1 witness_remove_ok.2
    witness_fs witness_fileOf 12

/-- … at that moment the temp file exists and holds one row, a second one is still in its buffer, and the database
    file holds the old three rows (first disjunct) -/
theorem witness_remove_crash_mid_concrete :
    (run witness_fs ((opSteps witness_s true witness_remove).take 12)).temp = some [witness_p1] ∧
    (run witness_fs ((opSteps witness_s true witness_remove).take 12)).pendT = [witness_p3] ∧
    afterCrash (run witness_fs ((opSteps witness_s true witness_remove).take 12)) = [witness_p1, witness_p2, witness_p3] := by
  decide +kernel

/-- a crash just before (19 calls) and just after (20 calls) the `os.replace`: the old, then the new contents (second
    disjunct); and old ≠ new -/
theorem witness_remove_crash_late :
    afterCrash (run witness_fs ((opSteps witness_s true witness_remove).take 19)) = [witness_p1, witness_p2, witness_p3] ∧
    afterCrash (run witness_fs ((opSteps witness_s true witness_remove).take 20)) = [witness_p1, witness_p3] ∧
    (witness_s.step witness_remove).1.storage = [witness_p1, witness_p3] ∧
    witness_s.storage ≠ (witness_s.step witness_remove).1.storage := by
  decide +kernel

/-- the update, crashed after 15 of its 29 calls -/
theorem witness_update_crash :
    let after := afterCrash (run witness_fs ((opSteps witness_s true witness_update).take 15))
    after = witness_s.storage ∨ after = (witness_s.step witness_update).1.storage ∨
    ∃ pts m j, witness_update = .insert pts m ∧ after = witness_s.storage ++ (insertedRows witness_s.cfg m pts).take j :=
  every_operation_is_crash_atomic witness_s witness_inv witness_update witness_update_ok.1 witness_update_ok.2
    witness_fs witness_fileOf 15

theorem witness_update_crash_concrete :
    (opSteps witness_s true witness_update).length = 29 ∧
    (run witness_fs ((opSteps witness_s true witness_update).take 15)).temp = some [witness_p1, witness_p2'] ∧
    afterCrash (run witness_fs ((opSteps witness_s true witness_update).take 15)) = [witness_p1, witness_p2, witness_p3] ∧
    afterCrash (run witness_fs ((opSteps witness_s true witness_update).take 25)) = [witness_p1, witness_p2', witness_p3] := by
  decide +kernel

/-- the insert of two points, crashed after 7 of its 10 calls (second row written but not flushed) -/
theorem witness_insert_crash :
    let after := afterCrash (run witness_fs ((opSteps witness_s true witness_insert).take 7))
    after = witness_s.storage ∨ after = (witness_s.step witness_insert).1.storage ∨
    ∃ pts m j, witness_insert = .insert pts m ∧ after = witness_s.storage ++ (insertedRows witness_s.cfg m pts).take j :=
  every_operation_is_crash_atomic witness_s witness_inv witness_insert witness_insert_ok.1 witness_insert_ok.2
    witness_fs witness_fileOf 7

/-- … the file holds the old rows plus the first new one: neither the old nor the new contents (third disjunct) -/
theorem witness_insert_crash_concrete :
    afterCrash (run witness_fs ((opSteps witness_s true witness_insert).take 7)) =
      [witness_p1, witness_p2, witness_p3, witness_p4] ∧
    afterCrash (run witness_fs ((opSteps witness_s true witness_insert).take 7)) =
      witness_s.storage ++ (insertedRows witness_s.cfg none [some witness_p4, some witness_p5]).take 1 ∧
    afterCrash (run witness_fs ((opSteps witness_s true witness_insert).take 7)) ≠ witness_s.storage ∧
    afterCrash (run witness_fs ((opSteps witness_s true witness_insert).take 7)) ≠ (witness_s.step witness_insert).1.storage := by
  decide +kernel

/-- the count: no I/O, nothing to crash in -/
theorem witness_count_crash :
    let after := afterCrash (run witness_fs ((opSteps witness_s true witness_count).take 1))
    after = witness_s.storage ∨ after = (witness_s.step witness_count).1.storage ∨
    ∃ pts m j, witness_count = .insert pts m ∧ after = witness_s.storage ++ (insertedRows witness_s.cfg m pts).take j :=
  every_operation_is_crash_atomic witness_s witness_inv witness_count witness_count_ok.1 witness_count_ok.2
    witness_fs witness_fileOf 1

/-! ## the protocol-level theorems at the same file -/

theorem witness_quiet : Quiet witness_fs := ⟨rfl, rfl, rfl⟩

example := rewrite_crash_atomic witness_fs witness_quiet true [some witness_p1, none, some witness_p3] false 12
example := insert_crash_prefix witness_fs witness_quiet [witness_p4, witness_p5] 7

end TinyFlux.Props.C12
