import TinyFlux.Lemmas.IOOps
/-! # C13, end to end (database model ⋈ I/O model) -/
namespace TinyFlux.Props.C13
open TinyFlux.Model TinyFlux.Model.IO TinyFlux.Spec

/-- for every reachable state and every operation, an I/O error after any prefix of the operation's calls,
    followed by the `finally` cleanup, leaves the old or the new contents (insert: plus a prefix, counting rows
    still buffered in the live handle) and no temp file -/
theorem every_operation_is_fault_atomic (s : State) (hs : Inv s) (op : Op)
    (hok : OpOK s.cfg op) (hm : MeasOK op) (fs : FS Point) (hfs : FileOf s fs) (k : Nat) :
    let fs' := run fs ((opSteps s true op).take k ++ [.tClose, .tUnlink])
    fs'.temp = none ∧
    (afterClose fs' = s.storage ∨ afterClose fs' = (s.step op).1.storage ∨
     ∃ pts m j, op = .insert pts m ∧ afterClose fs' = s.storage ++ (insertedRows s.cfg m pts).take j) :=
  op_fault_atomic s hs op hok hm fs hfs k

end TinyFlux.Props.C13
