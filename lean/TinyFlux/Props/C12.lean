import TinyFlux.Model.IO
import TinyFlux.Lemmas.IOLemmas
/-!
# C12 — a crash at any I/O step leaves the file holding the old or the new contents (partial)

For every prefix of the I/O steps of an operation (= the process dies between two I/O calls), what a
fresh reader finds (`afterCrash`: only what reached the OS) is the old contents or the new contents;
for `insert_multiple` the old contents plus a prefix of the new rows. The step lists are validated
against recorded traces, and the statement against real process deaths at every boundary.
*Partial*: power-loss durability, torn single writes and file-system specifics are outside the model.
-/
namespace TinyFlux.Props.C12
open TinyFlux.Model.IO
variable {R : Type}

theorem insert_crash_prefix (fs : FS R) (hq : Quiet fs) (rows : List R) (k : Nat) :
    ∃ j, j ≤ rows.length ∧ afterCrash (run fs ((appendSteps true rows).take k)) = fs.primary ++ rows.take j := by
  exact append_prefix_crash fs hq.noPend rows k

/-- remove / update that change something: stage to a temp file, flush, atomic replace -/
theorem rewrite_crash_atomic (fs : FS R) (hq : Quiet fs) (flush : Bool) (rows : List (Option R)) (rebuild : Bool) (k : Nat) :
    afterCrash (run fs ((rewriteSteps flush rows rebuild).take k)) = fs.primary ∨
    afterCrash (run fs ((rewriteSteps flush rows rebuild).take k)) = newRows rows := by
  exact rewrite_prefix fs hq.noPend flush rows rebuild k

/-- remove / update that change nothing never touch the file -/
theorem noop_rewrite_crash (fs : FS R) (hq : Quiet fs) (flush : Bool) (rows : List (Option R)) (scanned : Bool) (k : Nat) :
    afterCrash (run fs ((noopRewriteSteps flush rows scanned).take k)) = fs.primary := by
  exact (run_safe_take fs _ (noopRewriteSteps_safe flush rows scanned) hq.noPend k).1

/-- remove_all (and a remove that matches everything): a single truncate -/
theorem reset_crash_atomic (fs : FS R) (hq : Quiet fs) (flush : Bool) (rows : List (Option R)) (scanned : Bool) (k : Nat) :
    (afterCrash (run fs ((resetSteps (R := R)).take k)) = fs.primary ∨ afterCrash (run fs ((resetSteps (R := R)).take k)) = []) ∧
    (afterCrash (run fs ((resetInTempSteps flush rows scanned).take k)) = fs.primary ∨
     afterCrash (run fs ((resetInTempSteps flush rows scanned).take k)) = []) := by
  exact ⟨(resetSteps_prefix fs hq.noPend k).1, resetInTemp_prefix fs hq.noPend flush rows scanned k⟩

/-- reads never change the file -/
theorem scan_crash (fs : FS R) (hq : Quiet fs) (k : Nat) :
    afterCrash (run fs ((scanSteps (R := R)).take k)) = fs.primary := by
  exact (run_safe_take fs _ (by simp [scanSteps, Step.safe]) hq.noPend k).1

/-- the protocol of the pinned commit — copy = truncate the destination, then write it — is *not* atomic -/
theorem truncating_copy_is_not_atomic :
    ∃ (fs : FS Nat) (steps : List (Step Nat)) (k : Nat), Quiet fs ∧ fs.primary = [1, 2, 3] ∧
      steps = [.pSeek0, .pTruncate, .pWrite 1, .pWrite 3, .pFlush] ∧
      afterCrash (run fs (steps.take k)) ≠ [1, 2, 3] ∧ afterCrash (run fs (steps.take k)) ≠ [1, 3] := by
  refine ⟨{ primary := [1, 2, 3] }, _, 2, ⟨rfl, rfl, rfl⟩, rfl, rfl, ?_, ?_⟩ <;>
    simp [afterCrash, exec]

end TinyFlux.Props.C12
