import TinyFlux.Model.IO
import TinyFlux.Lemmas.IOLemmas
/-!
# C13 — an I/O error during an operation is reported and corrupts nothing (partial)

A failing I/O call raises out of the operation after a prefix of its steps has run (for `flush`,
`fsync`, `close` the failing call may or may not have taken effect: both prefixes are covered); the
`finally` clause of `temp_storage_op` then closes and removes the temp file. Whatever the prefix,
the database file holds the old or the new contents (for inserts: old plus a prefix of the new rows,
counting rows still buffered in the live handle), and no temp file is left. That the error reaches
the caller and that the live object afterwards answers consistently with its own storage or fails is
validated on the real code by injecting an `OSError` at every call index of every operation.
*Partial*: as C12.
-/
namespace TinyFlux.Props.C13
open TinyFlux.Model.IO
variable {R : Type}

def cleanup : List (Step R) := [.tClose, .tUnlink]

theorem rewrite_fault_atomic (fs : FS R) (hq : Quiet fs) (flush : Bool) (rows : List (Option R)) (rebuild : Bool) (k : Nat) :
    let fs' := run fs ((rewriteSteps flush rows rebuild).take k ++ cleanup)
    (fs'.primary = fs.primary ∨ fs'.primary = newRows rows) ∧ fs'.temp = none := by
  intro fs'
  have e : fs' = run (run fs ((rewriteSteps flush rows rebuild).take k)) [.tClose, .tUnlink] := by
    simp only [fs', cleanup, run_append]
  obtain ⟨h1, _, h3, _⟩ := run_cleanup (run fs ((rewriteSteps flush rows rebuild).take k))
  rw [e, h1]
  exact ⟨rewrite_prefix fs hq.noPend flush rows rebuild k, h3⟩

theorem noop_rewrite_fault (fs : FS R) (hq : Quiet fs) (flush : Bool) (rows : List (Option R)) (scanned : Bool) (k : Nat) :
    let fs' := run fs ((noopRewriteSteps flush rows scanned).take k ++ cleanup)
    fs'.primary = fs.primary ∧ fs'.temp = none := by
  intro fs'
  have e : fs' = run (run fs ((noopRewriteSteps flush rows scanned).take k)) [.tClose, .tUnlink] := by
    simp only [fs', cleanup, run_append]
  obtain ⟨h1, _, h3, _⟩ := run_cleanup (run fs ((noopRewriteSteps flush rows scanned).take k))
  rw [e, h1]
  exact ⟨(run_safe_take fs _ (noopRewriteSteps_safe flush rows scanned) hq.noPend k).1, h3⟩

/-- a failed insert: the file (once the live handle flushes or closes) holds the old contents plus a
    prefix of the new rows, never anything else -/
theorem insert_fault_prefix (fs : FS R) (hq : Quiet fs) (flush : Bool) (rows : List R) (k : Nat) :
    ∃ j, j ≤ rows.length ∧ afterClose (run fs ((appendSteps flush rows).take k)) = fs.primary ++ rows.take j := by
  obtain ⟨j, hj, h⟩ := append_prefix_close fs flush rows k
  refine ⟨j, hj, ?_⟩
  rw [h]
  simp [afterClose, hq.noPend]

/-- a failed `remove_all`: old or empty -/
theorem reset_fault (fs : FS R) (hq : Quiet fs) (k : Nat) :
    afterClose (run fs ((resetSteps (R := R)).take k)) = fs.primary ∨ afterClose (run fs ((resetSteps (R := R)).take k)) = [] := by
  obtain ⟨h1, h2⟩ := resetSteps_prefix fs hq.noPend k
  simpa [afterClose, h2] using h1

end TinyFlux.Props.C13
