import TinyFlux.Mirror.Ops
/-!
# C03 over the translated source: the index after an update

(see `C06Mirror.lean` for the construction). A changing update ends with `Index.invalidate()` and, when indexing
automatically, `Index.build(storage)`; as translated from the working tree, `build` leaves a valid index that is
exactly the index of the updated points, whatever the index held before.
-/
namespace TinyFlux.Props.C03
open TinyFlux.Spec TinyFlux.Model TinyFlux.Mirror TinyFlux.Generated

theorem translated_rebuild_after_update (g : GSelf) (l : List Point) (hwf : ∀ p ∈ l, WFPoint p) :
    ∃ g0 g', IndexImpl.invalidate g = .ok g0 ∧ g0._valid = false ∧ IndexImpl.build g0 l = .ok g' ∧ GWF g'
      ∧ g'._valid = true ∧ Represents (Mirror.abs g') l := by
  obtain ⟨g', h1, h2, h3, h4⟩ := gen_build_represents (IndexImpl.__init__ false) l hwf
  exact ⟨_, g', invalidate_ok g, rfl, h1, h2, h3, h4⟩

end TinyFlux.Props.C03
