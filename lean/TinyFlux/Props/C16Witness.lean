import TinyFlux.Props.C16
import TinyFlux.Props.C16EndToEnd
/-!
# C16 — non-vacuity witness

The hypotheses of `insert_cost_independent_of_database` (two states with the same configuration) are satisfied
by two very different concrete states — a CSV database with auto-indexing holding three points with a valid
index, and the empty database; and a third one whose index is invalid — and the conclusion is evaluated: ten calls
for two points in each of them, the same ten calls.
(The concrete instance — configuration, points, state, file, operations, and the proofs of `Inv`, `FileOf`, `OpOK`,
`MeasOK` — is the same as in `C04Witness.lean`, repeated here so that the file stands alone.)
-/
namespace TinyFlux.Props.C16
open TinyFlux.Model TinyFlux.Model.IO TinyFlux.Spec

/-! ## the concrete instance -/

/-- CSV storage (the model's `norm` for CSV, as in `Driver/ModelMain.lean`), auto-indexing on -/
def witness_cfg : Cfg := { autoIndex := true, norm := id }

def witness_p1 : Point :=
  { time := 1000000, meas := "cpu", tags := [("host", some "a")], fields := [("load", some (.fin 1))] }
def witness_p2 : Point :=
  { time := 2000000, meas := "cpu", tags := [("host", some "b")], fields := [("load", some (.fin (5/2)))] }
def witness_p3 : Point :=
  { time := 3000000, meas := "mem", tags := [("host", some "a"), ("dc", none)], fields := [("free", none)] }
def witness_p4 : Point :=
  { time := 4000000, meas := "cpu", tags := [("host", some "c")], fields := [("load", some (.fin 3))] }
def witness_p5 : Point :=
  { time := 1500000, meas := "disk", tags := [], fields := [("used", some (.fin (-7)))] }
/-- `witness_p2` after the update below -/
def witness_p2' : Point :=
  { time := 2000000, meas := "cpu", tags := [("host", some "b")], fields := [("load", some (.fin 7))] }

/-- the history that builds the state: two `insert` calls -/
def witness_history : List Op := [.insert [some witness_p1, some witness_p2] none, .insert [some witness_p3] none]

/-- the state reached from the empty database -/
def witness_s : State := (runM (init witness_cfg) witness_history).1

/-- the file that goes with it: the three rows, nothing buffered, no temp file, handle open at the end -/
def witness_fs : FS Point := { primary := [witness_p1, witness_p2, witness_p3] }

/-- `db.remove(TagQuery().host == "b")`: removes the second of the three points -/
def witness_remove : Op := .remove (.tag "host" (.cmp .eq (.str "b"))) none
/-- `db.update(TagQuery().host == "b", fields={"load": 7})`: changes the second point -/
def witness_setLoad (v : Option Num) : Upd :=
  { time := none, meas := none, tags := none, fields := some (fun _ => .ok [("load", v)]),
    unsetTags := [], unsetFields := [] }
def witness_update : Op := .update false (.tag "host" (.cmp .eq (.str "b"))) (witness_setLoad (some (.fin 7))) none
/-- `db.insert_multiple([p4, p5])` (the second one out of time order) -/
def witness_insert : Op := .insert [some witness_p4, some witness_p5] none
/-- `db.count(MeasurementQuery() == "cpu")` -/
def witness_count : Op := .count (.meas (.cmp .eq (.str "cpu"))) none
/-- a remove that matches nothing -/
def witness_remove0 : Op := .remove (.tag "host" (.cmp .eq (.str "zzz"))) none

/-! ## the hypotheses hold -/

theorem witness_good_of_wf (p : Point) (h : WFPoint p) : Good witness_cfg p := ⟨h, rfl⟩

theorem witness_history_ok : OpsOK witness_cfg witness_history := by
  intro op hop
  simp only [witness_history, List.mem_cons, List.not_mem_nil, or_false] at hop
  rcases hop with rfl | rfl
  · refine ⟨?_, by simp [MeasOK]⟩
    intro p hp
    simp only [List.mem_cons, Option.some.injEq, List.not_mem_nil, or_false] at hp
    rcases hp with rfl | rfl <;> exact witness_good_of_wf _ ⟨by decide, by decide⟩
  · refine ⟨?_, by simp [MeasOK]⟩
    intro p hp
    simp only [List.mem_cons, Option.some.injEq, List.not_mem_nil, or_false] at hp
    subst hp
    exact witness_good_of_wf _ ⟨by decide, by decide⟩

/-- the state is reachable, hence satisfies the invariant -/
theorem witness_inv : Inv witness_s := (reachable witness_cfg witness_history witness_history_ok).1

theorem witness_storage : witness_s.storage = [witness_p1, witness_p2, witness_p3] := rfl
theorem witness_index_valid : witness_s.index.valid = true := rfl
theorem witness_index_nontrivial : witness_s.index.numItems = 3 ∧ witness_s.index.ts = [1000000, 2000000, 3000000] := ⟨rfl, rfl⟩

theorem witness_fileOf : FileOf witness_s witness_fs := ⟨rfl, ⟨rfl, rfl, rfl⟩⟩

/-! ### `OpOK` / `MeasOK` of the four operations -/

theorem witness_remove_ok : OpOK witness_s.cfg witness_remove ∧ MeasOK witness_remove :=
  ⟨trivial, by simp [MeasOK, witness_remove]⟩
theorem witness_count_ok : OpOK witness_s.cfg witness_count ∧ MeasOK witness_count :=
  ⟨trivial, by simp [MeasOK, witness_count]⟩

theorem witness_insert_ok : OpOK witness_s.cfg witness_insert ∧ MeasOK witness_insert := by
  refine ⟨?_, by simp [MeasOK, witness_insert]⟩
  intro p hp
  simp only [List.mem_cons, Option.some.injEq, List.not_mem_nil, or_false] at hp
  rcases hp with rfl | rfl <;> exact witness_good_of_wf _ ⟨by decide, by decide⟩

private theorem mem_keys_dictSet {V : Type} (d : List (String × V)) (k : String) (v : V) (k' : String)
    (h : k' ∈ (dictSet d k v).map (·.1)) : k' = k ∨ k' ∈ d.map (·.1) := by
  induction d with
  | nil => simpa [dictSet] using h
  | cons kv t ih =>
    obtain ⟨a, b⟩ := kv
    unfold dictSet at h
    by_cases hk : (a == k) = true
    · simp only [hk, if_true, List.map_cons, List.mem_cons] at h
      exact Or.inr (by simpa using h)
    · simp only [hk, Bool.false_eq_true, if_false, List.map_cons, List.mem_cons] at h
      rcases h with h | h
      · exact Or.inr (by simp [h])
      · rcases ih h with h | h
        · exact Or.inl h
        · exact Or.inr (by simp [h])

private theorem nodup_keys_dictSet {V : Type} (d : List (String × V)) (k : String) (v : V)
    (h : (d.map (·.1)).Nodup) : ((dictSet d k v).map (·.1)).Nodup := by
  induction d with
  | nil => simp [dictSet]
  | cons kv t ih =>
    obtain ⟨a, b⟩ := kv
    simp only [List.map_cons, List.nodup_cons] at h
    unfold dictSet
    by_cases hk : (a == k) = true
    · simpa [hk] using h
    · simp only [hk, Bool.false_eq_true, if_false, List.map_cons, List.nodup_cons]
      refine ⟨?_, ih h.2⟩
      intro hm
      rcases mem_keys_dictSet t k v a hm with e | e
      · exact hk (by simp [e])
      · exact h.1 e

private theorem nodup_keys_eraseKeys {V : Type} (d : List (String × V)) (ks : List String)
    (h : (d.map (·.1)).Nodup) : ((eraseKeys d ks).map (·.1)).Nodup :=
  List.Nodup.sublist (List.Sublist.map _ List.filter_sublist) h

/-- `fields={"load": v}` maps storable points to storable points: the quantified `OpOK` hypothesis, by hand -/
theorem witness_setLoad_ok (all : Bool) (q : Query) (v : Option Num) :
    OpOK witness_s.cfg (.update all q (witness_setLoad v) none) ∧ MeasOK (.update all q (witness_setLoad v) none) := by
  refine ⟨?_, by simp [MeasOK]⟩
  intro p p' hp hu
  have e : p' = { time := p.time, meas := p.meas, tags := eraseKeys p.tags [],
                  fields := eraseKeys (dictSet p.fields "load" v) [] } := by
    simpa [upd, witness_setLoad, applyOpt, bind, Except.bind, pure, Except.pure, dictUpdate] using hu.symm
  subst e
  exact witness_good_of_wf _ ⟨nodup_keys_eraseKeys _ _ hp.1.1,
    nodup_keys_eraseKeys _ _ (nodup_keys_dictSet _ _ _ hp.1.2)⟩

theorem witness_update_ok : OpOK witness_s.cfg witness_update ∧ MeasOK witness_update :=
  witness_setLoad_ok _ _ _

/-! ## the theorem, instantiated -/

def witness_pts : List (Option Point) := [some witness_p4, some witness_p5]

/-- a third state: after an out-of-order insert the index is invalid, five points are stored -/
def witness_s' : State := (witness_s.step witness_insert).1

theorem witness_states_differ :
    witness_s.storage.length = 3 ∧ witness_s.index.valid = true ∧
    (init witness_cfg).storage.length = 0 ∧
    witness_s'.storage.length = 5 ∧ witness_s'.index.valid = false := by
  decide +kernel

/-- three points stored vs. the empty database, `flush_on_insert=True` -/
theorem witness_insert_cost :
    opSteps witness_s true (.insert witness_pts none) = opSteps (init witness_cfg) true (.insert witness_pts none) ∧
    (opSteps witness_s true (.insert witness_pts none)).length =
      (if true then 5 else 2) * (insertedRows witness_s.cfg none witness_pts).length ∧
    (∀ st ∈ opSteps witness_s true (.insert witness_pts none), st.isRead = false) ∧
    (witness_s.step (.insert witness_pts none)).1.storage = witness_s.storage ++ insertedRows witness_s.cfg none witness_pts :=
  insert_cost_independent_of_database witness_s (init witness_cfg) rfl true witness_pts none

/-- five points stored and an invalid index vs. three points and a valid one, `flush_on_insert=False`, through a
    measurement handle -/
theorem witness_insert_cost' :
    opSteps witness_s' false (.insert witness_pts (some "net")) = opSteps witness_s false (.insert witness_pts (some "net")) ∧
    (opSteps witness_s' false (.insert witness_pts (some "net"))).length =
      (if false then 5 else 2) * (insertedRows witness_s'.cfg (some "net") witness_pts).length ∧
    (∀ st ∈ opSteps witness_s' false (.insert witness_pts (some "net")), st.isRead = false) ∧
    (witness_s'.step (.insert witness_pts (some "net"))).1.storage =
      witness_s'.storage ++ insertedRows witness_s'.cfg (some "net") witness_pts :=
  insert_cost_independent_of_database witness_s' witness_s rfl false witness_pts (some "net")

/-- the numbers: ten calls (five per point) whatever is stored, four without flushing; the rows written -/
theorem witness_insert_cost_concrete :
    (opSteps witness_s true (.insert witness_pts none)).length = 10 ∧
    (opSteps (init witness_cfg) true (.insert witness_pts none)).length = 10 ∧
    (opSteps witness_s' true (.insert witness_pts none)).length = 10 ∧
    (opSteps witness_s' false (.insert witness_pts (some "net"))).length = 4 ∧
    insertedRows witness_s.cfg none witness_pts = [witness_p4, witness_p5] ∧
    (witness_s.step (.insert witness_pts none)).1.storage =
      [witness_p1, witness_p2, witness_p3, witness_p4, witness_p5] ∧
    (run witness_fs (opSteps witness_s true (.insert witness_pts none))).primary =
      [witness_p1, witness_p2, witness_p3, witness_p4, witness_p5] := by
  decide +kernel

example : 5 < (opSteps witness_s true (.insert witness_pts none)).length := by decide +kernel

/-- in contrast, the cost of a remove does depend on what is stored: 22 calls here, 3 on the empty database -/
theorem witness_remove_cost_depends :
    (opSteps witness_s true witness_remove).length = 22 ∧ (opSteps (init witness_cfg) true witness_remove).length = 3 := by
  decide +kernel

/-! ## the protocol-level theorems at the same file -/

theorem witness_quiet : Quiet witness_fs := ⟨rfl, rfl, rfl⟩

example := insert_steps_count [witness_p4, witness_p5]
example := insert_is_append witness_fs witness_quiet [witness_p4, witness_p5]
example := insert_never_touches_old_rows witness_fs witness_quiet true [witness_p4, witness_p5] 7

end TinyFlux.Props.C16
