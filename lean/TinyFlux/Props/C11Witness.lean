import TinyFlux.Props.C11
import TinyFlux.Props.C05
import TinyFlux.Model.Codec
/-!
# C11 — non-vacuity witnesses

The hypotheses of the theorems of `Props/C11.lean` (`Inv s`, `OpOK s.cfg op`, `MeasOK op`, and "the call
returned an error") are jointly satisfiable by concrete, non-trivial states and raising operations, and the
conclusions then say something concrete: every theorem is instantiated at a three-point database under a
CSV configuration (automatic index, the real row round trip as `norm`) and a memory configuration (no
automatic index) with an `insert_multiple` that has a non-Point in second position, an update whose callable
raises on the second of three selected points, and an update given no arguments; all hypotheses are
discharged and the resulting states and return values are computed (`decide +kernel`).

`OpOK` of an update quantifies over every storable point; it is proved for the CSV configuration from a
closed form of `Good csvCfg` (`good_csv_iff`), which needs the codec pair to be lawful on all values.
-/
namespace TinyFlux.Props.C11
open TinyFlux.Spec TinyFlux.Model

/-! ## the two configurations

`memCfg`: `MemoryStorage` (`norm = id`), here with automatic indexing off, so every answer below comes from
the scan path over an invalid index. `csvCfg`: `CSVStorage` with automatic indexing on; `norm` is the actual
row round trip `deserialize ∘ serialize` of `Model/Codec.lean` over a concrete codec pair (`wfc`, `wtc`:
the `float`/`datetime` text conversions are parameters of the model; any lawful pair will do, these two
are small enough for the kernel to run). A row that does not decode would come back as the junk point. -/

/-- text of a rational: sign letter, numerator in unary, `/`, denominator in unary (never a digit string) -/
def encQ (q : Rat) : Codec.Str :=
  (if q.num < 0 then 'm' else 'q') :: (List.replicate q.num.natAbs 'i' ++ '/' :: List.replicate q.den 'i')

def wfc : Codec.FieldCodec where
  repr
    | .ninf => ['n'] | .pinf => ['p'] | .fin q => encQ q
  parse
    | ['n'] => some .ninf
    | ['p'] => some .pinf
    | 'q' :: r => some (.fin (mkRat (r.takeWhile (· == 'i')).length ((r.dropWhile (· == 'i')).drop 1).length))
    | 'm' :: r => some (.fin (mkRat (-((r.takeWhile (· == 'i')).length : Int)) ((r.dropWhile (· == 'i')).drop 1).length))
    | _ => none

def wtc : Codec.TimeCodec where
  iso | .ofNat n => 'T' :: List.replicate n 'i' | .negSucc n => 'U' :: List.replicate n 'i'
  fromIso | 'T' :: r => some (Int.ofNat r.length) | 'U' :: r => some (Int.negSucc r.length) | _ => none

def csvNorm (p : Point) : Point :=
  match Codec.deserialize wfc wtc (Codec.serialize wfc wtc false p) with
  | some q => q
  | none => ⟨0, "", [], []⟩

def csvCfg : Cfg := { autoIndex := true, norm := csvNorm }
def memCfg : Cfg := { autoIndex := false, norm := id }

/-! ## three points in two measurements: a `None` tag value, a `None` field value, a non-integer field
value, and a tie in time (`p2`, `p3`) -/

def p1 : Point := ⟨10, "m1", [("a", some "x"), ("b", none)], [("f", some (.fin 2))]⟩
def p2 : Point := ⟨20, "m1", [("a", some "y")], [("f", some (.fin 7)), ("g", none)]⟩
def p3 : Point := ⟨20, "m2", [("a", some "x")], [("f", some (.fin (5 / 2)))]⟩

/-- the history that builds the state: an `insert_multiple`, then an `insert` -/
def ops0 : List Op := [.insert [some p1, some p2] none, .insert [some p3] none]

def sCsv : State := (runM (init csvCfg) ops0).1
def sMem : State := (runM (init memCfg) ops0).1

/-! ## the hypotheses hold: `Good`, `OpsOK`, `Inv` -/

/-- the three points survive the CSV round trip unchanged (the kernel runs the codec) -/
theorem witness_good_csv : Good csvCfg p1 ∧ Good csvCfg p2 ∧ Good csvCfg p3 :=
  ⟨⟨⟨by decide, by decide⟩, by decide +kernel⟩, ⟨⟨by decide, by decide⟩, by decide +kernel⟩,
   ⟨⟨by decide, by decide⟩, by decide +kernel⟩⟩

theorem witness_good_mem : Good memCfg p1 ∧ Good memCfg p2 ∧ Good memCfg p3 :=
  ⟨⟨⟨by decide, by decide⟩, rfl⟩, ⟨⟨by decide, by decide⟩, rfl⟩, ⟨⟨by decide, by decide⟩, rfl⟩⟩

/-- … and the round trip is not the identity: a tag value `"_none"` comes back as `None`, so not every
    point is `Good` for `csvCfg` -/
theorem witness_csv_norm_not_id : ¬ Good csvCfg ⟨10, "m1", [("a", some "_none")], []⟩ := by
  intro h
  exact absurd h.2 (by decide +kernel)

theorem witness_opsOK_csv : OpsOK csvCfg ops0 := by
  intro op hop
  simp only [ops0, List.mem_cons, List.not_mem_nil, or_false] at hop
  rcases hop with rfl | rfl
  · refine ⟨?_, by simp [MeasOK]⟩
    intro p hp
    simp only [List.mem_cons, Option.some.injEq, List.not_mem_nil, or_false] at hp
    rcases hp with rfl | rfl
    · exact witness_good_csv.1
    · exact witness_good_csv.2.1
  · refine ⟨?_, by simp [MeasOK]⟩
    intro p hp
    simp only [List.mem_cons, Option.some.injEq, List.not_mem_nil, or_false] at hp
    subst hp
    exact witness_good_csv.2.2

theorem witness_opsOK_mem : OpsOK memCfg ops0 := by
  intro op hop
  simp only [ops0, List.mem_cons, List.not_mem_nil, or_false] at hop
  rcases hop with rfl | rfl
  · refine ⟨?_, by simp [MeasOK]⟩
    intro p hp
    simp only [List.mem_cons, Option.some.injEq, List.not_mem_nil, or_false] at hp
    rcases hp with rfl | rfl
    · exact witness_good_mem.1
    · exact witness_good_mem.2.1
  · refine ⟨?_, by simp [MeasOK]⟩
    intro p hp
    simp only [List.mem_cons, Option.some.injEq, List.not_mem_nil, or_false] at hp
    subst hp
    exact witness_good_mem.2.2

/-- `Inv` of both states, through the reachability theorem -/
theorem witness_inv_csv : Inv sCsv := (reachable csvCfg ops0 witness_opsOK_csv).1
theorem witness_inv_mem : Inv sMem := (reachable memCfg ops0 witness_opsOK_mem).1

/-- the states are not trivial: three stored points; the CSV state has a valid, populated index (so
    `Inv.rep` says something), the memory state an invalidated one (so answers come from scanning) -/
theorem witness_state_csv :
    sCsv.storage = [p1, p2, p3] ∧ sCsv.storage.length = 3 ∧ sCsv.index.valid = true ∧
    sCsv.index.numItems = 3 ∧ sCsv.index.ts = [10, 20, 20] ∧ sCsv.index.pos = [0, 1, 2] ∧
    sCsv.cfg.autoIndex = true := by decide +kernel
theorem witness_state_mem :
    sMem.storage = [p1, p2, p3] ∧ sMem.storage.length = 3 ∧ sMem.index.valid = false ∧
    sMem.cfg.autoIndex = false := by decide +kernel
theorem witness_rep_csv : Represents sCsv.index sCsv.storage := witness_inv_csv.rep witness_state_csv.2.2.1

/-- no measurement filter used below is the empty string -/
theorem mOK (s : String) (h : s ≠ "" := by decide) : (some s : Option String) ≠ some "" := by
  intro e; exact h (Option.some.inj e)
theorem noneOK : (none : Option String) ≠ some "" := by simp

/-! ## what `Good csvCfg` is, in closed form

`OpOK` of an update quantifies over *every* storable point, not only the stored ones, so evaluating the
codec on three points is not enough: the codec pair is shown lawful for all values, which makes the row
round trip the map "replace a tag value `"_none"` by `None`" on dict-shaped points (C05 gives one
direction), and `Good csvCfg` the predicate "dict-shaped, no tag value `"_none"`". -/

theorem wtc_law (t : Int) : wtc.fromIso (wtc.iso t) = some t := by
  cases t <;> simp [wtc]

theorem wfc_parse_repr (n : Num) : wfc.parse (wfc.repr n) = some n := by
  cases n with
  | ninf => rfl
  | pinf => rfl
  | fin q =>
    by_cases h : q.num < 0
    · have e : (-(q.num.natAbs : Int)) = q.num := by omega
      simp [wfc, encQ, h, e, Rat.mkRat_self]
    · have e : (q.num.natAbs : Int) = q.num := by omega
      simp [wfc, encQ, h]
      rw [e, Rat.mkRat_self]

theorem wfc_shape (n : Num) : wfc.repr n ≠ [] ∧ Codec.isDigits (wfc.repr n) = false ∧
    ¬ (∃ t, wfc.repr n = '-' :: t ∧ Codec.isDigits t = true) := by
  cases n with
  | ninf => simp [wfc, Codec.isDigits]
  | pinf => simp [wfc, Codec.isDigits]
  | fin q => by_cases h : q.num < 0 <;> simp [wfc, encQ, h, Codec.isDigits]

theorem wfc_sentinel : Codec.SentinelNotNumber wfc := by
  simp [Codec.SentinelNotNumber, Lemmas.CodecLemmas.noneS_eq, wfc]

/-- what the CSV format does to a tag value: the sentinel text comes back as `None` -/
def scrub (v : Option String) : Option String := if v = some Generated.noneStr then none else v
def scrubTags (p : Point) : Point := { p with tags := p.tags.map (fun kv => (kv.1, scrub kv.2)) }

theorem serialize_scrub (p : Point) :
    Codec.serialize wfc wtc false (scrubTags p) = Codec.serialize wfc wtc false p := by
  have h : ∀ v : Option String, Lemmas.CodecLemmas.tagValCell (scrub v) = Lemmas.CodecLemmas.tagValCell v := by
    intro v
    cases v with
    | none => rfl
    | some s =>
      by_cases hs : s = Generated.noneStr
      · subst hs; simp [scrub, Lemmas.CodecLemmas.tagValCell, Codec.noneS]
      · simp [scrub, hs]
  rw [Lemmas.CodecLemmas.serialize_eq, Lemmas.CodecLemmas.serialize_eq]
  simp [scrubTags, Lemmas.CodecLemmas.tagCells, List.flatMap_map, h]

theorem codable_scrub (p : Point) (hp : WFPoint p) : Codec.Codable wfc wtc (scrubTags p) where
  timeOk := wtc_law _
  measOk := by intro h; simp [Generated.measEmptyAsSentinel] at h
  tagKeys := by simpa [scrubTags, List.map_map, Function.comp_def] using hp.1
  fieldKeys := hp.2
  tagVals := by
    intro kv hkv
    simp only [scrubTags, List.mem_map] at hkv
    obtain ⟨kv', _, rfl⟩ := hkv
    simp only [scrub]
    split <;> simp_all
  fieldVals := by
    intro kv _ n _
    exact ⟨wfc_parse_repr n, wfc_shape n⟩

/-- the closed form of the CSV round trip on dict-shaped points -/
theorem csvNorm_eq (p : Point) (hp : WFPoint p) : csvNorm p = scrubTags p := by
  unfold csvNorm
  rw [← serialize_scrub, C05.row_roundtrip_partial wfc wtc wfc_sentinel false _ (codable_scrub p hp)]

theorem map_eq_self {α} (f : α → α) (l : List α) (h : l.map f = l) : ∀ a ∈ l, f a = a := by
  induction l with
  | nil => simp
  | cons x t ih =>
    simp only [List.map_cons, List.cons.injEq] at h
    intro a ha
    rcases List.mem_cons.mp ha with rfl | ha
    · exact h.1
    · exact ih h.2 a ha

/-- what CSV storage holds faithfully, for this codec: dict-shaped points with no tag value `"_none"` -/
theorem good_csv_iff (p : Point) :
    Good csvCfg p ↔ WFPoint p ∧ ∀ kv ∈ p.tags, kv.2 ≠ some Generated.noneStr := by
  constructor
  · rintro ⟨hw, hn⟩
    refine ⟨hw, ?_⟩
    have : csvNorm p = p := hn
    rw [csvNorm_eq p hw] at this
    have ht : p.tags.map (fun kv => (kv.1, scrub kv.2)) = p.tags := congrArg Point.tags this
    intro kv hkv hv
    have := map_eq_self _ _ ht kv hkv
    rw [hv] at this
    have := congrArg Prod.snd this
    simp [scrub, hv] at this
  · rintro ⟨hw, hv⟩
    refine ⟨hw, ?_⟩
    show csvNorm p = p
    rw [csvNorm_eq p hw]
    have : p.tags.map (fun kv => (kv.1, scrub kv.2)) = p.tags := by
      conv => rhs; rw [← List.map_id p.tags]
      apply List.map_congr_left
      intro kv hkv
      have := hv kv hkv
      simp [scrub, this]
    cases p
    simp_all [scrubTags]

theorem good_mem_iff (p : Point) : Good memCfg p ↔ WFPoint p := by
  simp [Good, memCfg]

/-! ## updates that set one tag keep points storable -/

theorem dictSet_mem {V : Type} (d : List (String × V)) (k : String) (v : V) (kv : String × V)
    (h : kv ∈ dictSet d k v) : kv = (k, v) ∨ kv ∈ d := by
  induction d with
  | nil => simpa [dictSet] using h
  | cons x t ih =>
    obtain ⟨a, b⟩ := x
    unfold dictSet at h
    by_cases hk : a = k
    · subst hk
      simp only [beq_self_eq_true, if_true, List.mem_cons] at h
      rcases h with h | h
      · exact Or.inl h
      · exact Or.inr (List.mem_cons_of_mem _ h)
    · have hk' : (a == k) = false := by simpa using hk
      simp only [hk', Bool.false_eq_true, if_false, List.mem_cons] at h
      rcases h with h | h
      · exact Or.inr (h ▸ List.mem_cons_self)
      · rcases ih h with h | h
        · exact Or.inl h
        · exact Or.inr (List.mem_cons_of_mem _ h)

theorem dictSet_nodup {V : Type} (d : List (String × V)) (k : String) (v : V) (h : (d.map (·.1)).Nodup) :
    ((dictSet d k v).map (·.1)).Nodup := by
  induction d with
  | nil => simp [dictSet]
  | cons x t ih =>
    obtain ⟨a, b⟩ := x
    simp only [List.map_cons, List.nodup_cons] at h
    unfold dictSet
    by_cases hk : a = k
    · subst hk
      simpa using h
    · have hk' : (a == k) = false := by simpa using hk
      simp only [hk', Bool.false_eq_true, if_false, List.map_cons, List.nodup_cons]
      refine ⟨?_, ih h.2⟩
      intro hm
      obtain ⟨kv, hkv, hfst⟩ := List.mem_map.mp hm
      rcases dictSet_mem t k v kv hkv with rfl | hkv
      · exact hk hfst.symm
      · exact h.1 (List.mem_map.mpr ⟨kv, hkv, hfst⟩)

/-- an update that gives only `tags`, as a callable -/
def tagUpd (f : List (String × Option String) → Except Err (List (String × Option String))) : Upd :=
  { time := none, meas := none, tags := some f, fields := none, unsetTags := [], unsetFields := [] }

theorem upd_tagUpd (f : List (String × Option String) → Except Err (List (String × Option String)))
    (p p' : Point) (h : upd (tagUpd f) p = .ok p') :
    ∃ new, f p.tags = .ok new ∧ p' = { p with tags := dictUpdate p.tags new } := by
  cases hf : f p.tags with
  | error e => simp [upd, tagUpd, applyOpt, hf, bind, Except.bind, pure, Except.pure] at h
  | ok new =>
    refine ⟨new, rfl, ?_⟩
    simp [upd, tagUpd, applyOpt, hf, bind, Except.bind, pure, Except.pure, eraseKeys] at h
    subst h
    simp

/-- `OpOK` of an update whose callable, when it does not raise, sets the one tag `k := v` (`v` not the
    sentinel text): in both configurations, for every storable point -/
theorem opOK_tagUpd (cfg : Cfg) (hcfg : cfg = csvCfg ∨ cfg = memCfg)
    (f : List (String × Option String) → Except Err (List (String × Option String)))
    (k : String) (v : Option String) (hv : v ≠ some Generated.noneStr)
    (hf : ∀ tg new, f tg = .ok new → new = [(k, v)]) (all : Bool) (q : Query) (m : Option String) :
    OpOK cfg (.update all q (tagUpd f) m) := by
  intro p p' hg hu
  obtain ⟨new, hnew, rfl⟩ := upd_tagUpd f p p' hu
  rw [hf _ _ hnew]
  have e : dictUpdate p.tags [(k, v)] = dictSet p.tags k v := rfl
  rw [e]
  rcases hcfg with rfl | rfl
  · rw [good_csv_iff] at hg ⊢
    refine ⟨⟨dictSet_nodup _ _ _ hg.1.1, hg.1.2⟩, ?_⟩
    intro kv hkv
    rcases dictSet_mem _ _ _ _ hkv with rfl | hkv
    · exact hv
    · exact hg.2 kv hkv
  · rw [good_mem_iff] at hg ⊢
    exact ⟨dictSet_nodup _ _ _ hg.1, hg.2⟩

/-! ## C11: the main theorems at these states -/

def p4 : Point := ⟨30, "m1", [("c", some "w")], []⟩
def p5 : Point := ⟨40, "m2", [], [("f", none)]⟩
def p4m2 : Point := ⟨30, "m2", [("c", some "w")], []⟩

/-- `insert_multiple([p4, <not a Point>, p5])` -/
def badPts : List (Option Point) := [some p4, none, some p5]

/-- `OpOK` of the insert: every *Point* in the argument is storable (also `p5`, which is never reached) -/
theorem witness_opOK_badInsert (m : Option String) (hm : m = none ∨ m = some "m2") :
    OpOK sCsv.cfg (.insert badPts m) ∧ OpOK sMem.cfg (.insert badPts m) := by
  constructor <;>
  · intro p hp
    simp only [badPts, List.mem_cons, Option.some.injEq, List.not_mem_nil, or_false, reduceCtorEq, false_or] at hp
    rcases hm with rfl | rfl <;> rcases hp with rfl | rfl <;>
      exact ⟨⟨by decide, by decide⟩, by decide +kernel⟩

/-! ### `insert_error_preserves` -/
theorem witness_insert_raises :
    (sCsv.step (.insert badPts none)).2 = .err .type ∧ (sMem.step (.insert badPts (some "m2"))).2 = .err .type := by
  decide +kernel
example :
    Err.type = .type ∧
    (sCsv.step (.insert badPts none)).1.storage = sCsv.storage ++ (insertPrefix none badPts).1 ∧
    (insertPrefix none badPts).2 = true ∧
    Inv (sCsv.step (.insert badPts none)).1 :=
  insert_error_preserves sCsv witness_inv_csv badPts none (witness_opOK_badInsert none (Or.inl rfl)).1 noneOK .type
    witness_insert_raises.1
example :
    Err.type = .type ∧
    (sMem.step (.insert badPts (some "m2"))).1.storage = sMem.storage ++ (insertPrefix (some "m2") badPts).1 ∧
    (insertPrefix (some "m2") badPts).2 = true ∧
    Inv (sMem.step (.insert badPts (some "m2"))).1 :=
  insert_error_preserves sMem witness_inv_mem badPts (some "m2") (witness_opOK_badInsert (some "m2") (Or.inr rfl)).2
    (mOK "m2") .type witness_insert_raises.2
/-- exactly the point before the offending element was stored (and indexed); `p5` was not -/
theorem witness_insert_error_value :
    (sCsv.step (.insert badPts none)).1.storage = [p1, p2, p3, p4] ∧
    (sCsv.step (.insert badPts none)).1.index.valid = true ∧
    (sCsv.step (.insert badPts none)).1.index.numItems = 4 ∧
    (sCsv.step (.insert badPts none)).1.index.ts = [10, 20, 20, 30] ∧
    (insertPrefix none badPts).1 = [p4] ∧
    (sMem.step (.insert badPts (some "m2"))).1.storage = [p1, p2, p3, p4m2] ∧
    (sMem.step (.insert badPts (some "m2"))).1.index.valid = false := by decide +kernel
/-- the hypothesis "the call returned an error" is not always true: without the non-Point the call succeeds -/
theorem witness_insert_ok : (sCsv.step (.insert [some p4, some p5] none)).2 = .nat 2 := by decide +kernel

/-! ### `update_error_preserves`: a callable that raises on the second selected point -/
/-- `tags=lambda t: (raise if t["a"] == "y" else {"c": "w"})` -/
def uR : Upd :=
  tagUpd (fun tg => if tg.lookup "a" == some (some "y") then .error .user else .ok [("c", some "w")])
/-- no argument given: argument validation raises `ValueError` -/
def uNone : Upd := { time := none, meas := none, tags := none, fields := none, unsetTags := [], unsetFields := [] }

theorem witness_opOK_uR (cfg : Cfg) (hcfg : cfg = csvCfg ∨ cfg = memCfg) (all : Bool) (q : Query) (m : Option String) :
    OpOK cfg (.update all q uR m) :=
  opOK_tagUpd cfg hcfg _ "c" (some "w") (by decide)
    (fun tg new h => by
      split at h
      · cases h
      · injection h with h; exact h.symm) all q m
theorem witness_opOK_uNone (cfg : Cfg) (all : Bool) (q : Query) (m : Option String) :
    OpOK cfg (.update all q uNone m) := by
  intro p p' hg hu
  simp [upd, uNone, applyOpt, bind, Except.bind, pure, Except.pure, eraseKeys] at hu
  subst hu
  have e1 : List.filter (fun _ => true) p.tags = p.tags := by simp
  have e2 : List.filter (fun _ => true) p.fields = p.fields := by simp
  rw [e1, e2]
  exact hg

/-- the callable does not always raise: on `p1` it sets a tag, on `p2` it raises -/
theorem witness_uR_behaviour :
    upd uR p1 = .ok ⟨10, "m1", [("a", some "x"), ("b", none), ("c", some "w")], [("f", some (.fin 2))]⟩ ∧
    upd uR p2 = .error .user := ⟨by rfl, by rfl⟩

theorem witness_update_raises :
    (sCsv.step (.update true .noop uR none)).2 = .err .user ∧
    (sMem.step (.update false (.field "f" .exists) uR (some "m1"))).2 = .err .user ∧
    (sCsv.step (.update false .noop uNone none)).2 = .err .value := by decide +kernel
example :
    (sCsv.step (.update true .noop uR none)).1.storage = sCsv.storage ∧ Inv (sCsv.step (.update true .noop uR none)).1 :=
  update_error_preserves sCsv witness_inv_csv true .noop uR none (witness_opOK_uR _ (Or.inl rfl) _ _ _) noneOK .user
    witness_update_raises.1
example :
    (sMem.step (.update false (.field "f" .exists) uR (some "m1"))).1.storage = sMem.storage ∧
    Inv (sMem.step (.update false (.field "f" .exists) uR (some "m1"))).1 :=
  update_error_preserves sMem witness_inv_mem false (.field "f" .exists) uR (some "m1")
    (witness_opOK_uR _ (Or.inr rfl) _ _ _) (mOK "m1") .user witness_update_raises.2.1
example :
    (sCsv.step (.update false .noop uNone none)).1.storage = sCsv.storage ∧
    Inv (sCsv.step (.update false .noop uNone none)).1 :=
  update_error_preserves sCsv witness_inv_csv false .noop uNone none (witness_opOK_uNone _ _ _ _) noneOK .value
    witness_update_raises.2.2
/-- nothing changed — not even `p1`, which the callable had already rewritten when it raised on `p2` — and
    the index is still the valid one; restricted to `m2`, where it does not raise, the same update goes through -/
theorem witness_update_error_value :
    (sCsv.step (.update true .noop uR none)).1.storage = [p1, p2, p3] ∧
    (sCsv.step (.update true .noop uR none)).1.index.valid = true ∧
    (sCsv.step (.update true .noop uR none)).1.index.numItems = 3 ∧
    (sMem.step (.update false (.field "f" .exists) uR (some "m1"))).1.storage = [p1, p2, p3] ∧
    (sCsv.step (.update true .noop uR (some "m2"))).2 = .nat 1 ∧
    (sCsv.step (.update true .noop uR (some "m2"))).1.storage =
      [p1, p2, ⟨20, "m2", [("a", some "x"), ("c", some "w")], [("f", some (.fin (5 / 2)))]⟩] := by decide +kernel

/-! ### `usable_after_any_op` -/
example :
    Inv (sCsv.step (.insert badPts none)).1 ∧
    (sCsv.step (.insert badPts none)).1.storage = (Spec.step sCsv.storage (.insert badPts none)).1 :=
  usable_after_any_op sCsv witness_inv_csv (.insert badPts none) (witness_opOK_badInsert none (Or.inl rfl)).1 noneOK
example :
    Inv (sMem.step (.update true .noop uR none)).1 ∧
    (sMem.step (.update true .noop uR none)).1.storage = (Spec.step sMem.storage (.update true .noop uR none)).1 :=
  usable_after_any_op sMem witness_inv_mem (.update true .noop uR none) (witness_opOK_uR _ (Or.inr rfl) _ _ _) noneOK
/-- "still usable", concretely: the calls that follow the failed ones answer normally -/
theorem witness_usable_value :
    ((sCsv.step (.insert badPts none)).1.step (.count (.tag "c" .exists) none)).2 = .nat 1 ∧
    ((sCsv.step (.insert badPts none)).1.step (.remove (.tag "c" .exists) none)).1.storage = [p1, p2, p3] ∧
    ((sCsv.step (.update true .noop uR none)).1.step (.count (.tag "c" .exists) none)).2 = .nat 0 ∧
    ((sMem.step (.update true .noop uR none)).1.step (.search (.tag "a" (.cmp .eq (.str "y"))) none false)).2 =
      .points [p2] := by decide +kernel

/-! ### `spec_error_preserves` -/
theorem witness_spec_raises :
    (Spec.step [p1, p2, p3] (.insert badPts none)).2 = .err .type ∧
    (Spec.step [p1, p2, p3] (.update true .noop uR none)).2 = .err .user := by decide +kernel
example :
    (Spec.step [p1, p2, p3] (.insert badPts none)).1 = [p1, p2, p3] ∨
    ∃ pts m, Op.insert badPts none = .insert pts m ∧
      (Spec.step [p1, p2, p3] (.insert badPts none)).1 = [p1, p2, p3] ++ (insertPrefix m pts).1 :=
  spec_error_preserves [p1, p2, p3] (.insert badPts none) .type witness_spec_raises.1
example :
    (Spec.step [p1, p2, p3] (.update true .noop uR none)).1 = [p1, p2, p3] ∨
    ∃ pts m, Op.update true .noop uR none = .insert pts m ∧
      (Spec.step [p1, p2, p3] (.update true .noop uR none)).1 = [p1, p2, p3] ++ (insertPrefix m pts).1 :=
  spec_error_preserves [p1, p2, p3] (.update true .noop uR none) .user witness_spec_raises.2
theorem witness_spec_error_value :
    (Spec.step [p1, p2, p3] (.insert badPts none)).1 = [p1, p2, p3, p4] ∧
    (Spec.step [p1, p2, p3] (.update true .noop uR none)).1 = [p1, p2, p3] := by decide +kernel

end TinyFlux.Props.C11
