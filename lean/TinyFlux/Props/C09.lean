import TinyFlux.Lemmas.QueryEval
/-!
# C09 — query expressions mean what the DSL says and never fail on valid points

`Model.eval` mirrors `queries.py` with Python's exceptions made explicit (`TypeError` from an order
comparison with `None` or across types, a raising `map` function, a missing key); `Spec.sem` is the
documented meaning. The theorems hold for **every** query (any nesting depth, arbitrary user
predicates `f : PyV → Bool`, arbitrary regex predicates, arbitrary — possibly raising — map
functions `g : PyV → Option PyV`) and every point.
-/
namespace TinyFlux.Props.C09
open TinyFlux.Spec TinyFlux.Model

/-- evaluating a query on a point never raises, and yields exactly its documented meaning -/
theorem eval_total_and_correct (q : Query) (p : Point) : eval q p = .ok (sem q p) := eval_eq q p

/-- in particular no evaluation ends in an exception -/
theorem eval_never_raises (q : Query) (p : Point) : ∀ e, eval q p ≠ .error e := by
  intro e h; rw [eval_eq] at h; cases h

/-- `~`, `&`, `|` are exactly boolean NOT, AND, OR of their operands' results -/
theorem eval_not (q : Query) (p : Point) : eval (.not q) p = (eval q p).map (!·) := by
  simp [eval_eq, sem, Except.map]
theorem eval_and (q r : Query) (p : Point) :
    eval (.and q r) p = .ok (sem q p && sem r p) := by simp [eval_eq, sem]
theorem eval_or (q r : Query) (p : Point) :
    eval (.or q r) p = .ok (sem q p || sem r p) := by simp [eval_eq, sem]

/-- a comparison on a missing tag / field key is false, not an error -/
theorem missing_key_is_false (k : String) (l : Leaf) (p : Point) (h : p.tags.lookup k = none) :
    eval (.tag k l) p = .ok false := by simp [eval_eq, sem, h]
theorem missing_field_is_false (k : String) (l : Leaf) (p : Point) (h : p.fields.lookup k = none) :
    eval (.field k l) p = .ok false := by simp [eval_eq, sem, h]

/-- an order comparison that is undefined for `None` is false, `==` is false and `!=` is true -/
theorem none_comparisons (k : String) (p : Point) (s : String) (h : p.tags.lookup k = some none) :
    eval (.tag k (.cmp .lt (.str s))) p = .ok false ∧ eval (.tag k (.cmp .eq (.str s))) p = .ok false ∧
    eval (.tag k (.cmp .ne (.str s))) p = .ok true := by
  simp [eval_eq, sem, h, Leaf.eval, pyCmp, ofOptStr]

/-- a regular expression test on a value that is not a string (`None`) is false -/
theorem regex_on_none_is_false (k : String) (r : String → Bool) (p : Point)
    (h : p.tags.lookup k = some none) : eval (.tag k (.regex r)) p = .ok false := by
  simp [eval_eq, sem, h, Leaf.eval, ofOptStr]

/-- a `map` function that raises makes the leaf false -/
theorem raising_map_is_false (k : String) (g : PyV → Option PyV) (t : Leaf) (p : Point) (v : Option String)
    (h : p.tags.lookup k = some v) (hg : g (ofOptStr v) = none) : eval (.tag k (.map g t)) p = .ok false := by
  simp [eval_eq, sem, h, Leaf.eval, hg]

/-- `exists` is exactly key presence; `noop` is always true -/
theorem exists_iff_key (k : String) (p : Point) :
    eval (.tag k .exists) p = .ok (p.tags.lookup k).isSome := by
  simp only [eval_eq, sem]; cases p.tags.lookup k <;> simp [Leaf.eval]
theorem noop_true (p : Point) : eval .noop p = .ok true := by simp [eval_eq, sem]

/-! non-vacuity: a concrete nested query on a concrete point with a `None` tag -/
example : eval (.and (.not (.tag "a" (.regex fun s => s.startsWith "x"))) (.field "f" (.cmp .gt (.num (.fin 0)))))
    { time := 5, meas := "m", tags := [("a", none)], fields := [("f", some (.fin 2))] } = .ok true := by
  rw [eval_eq]; congr 1

end TinyFlux.Props.C09
