import TinyFlux.Lemmas.PropsAux
/-!
# C07 — exploration getters and lengths report exactly what is stored

Every getter of a state satisfying the invariant (every reachable state, `Props/C06.lean`) returns
the Spec one-liner over the stored contents, with a valid index and without one.
Guard: the measurement argument is not `""` (known finding `empty-measurement-name`).
-/
namespace TinyFlux.Props.C07
open TinyFlux.Spec TinyFlux.Model

theorem measurements_refines (s : State) (hs : Inv s) :
    (s.step .getMeasurements).2 = .strs (measurements s.storage) :=
  read_out_eq s hs .getMeasurements rfl (by simp [MeasOK]) (fun _ h => by simp [Spec.step] at h)
theorem tagKeys_refines (s : State) (hs : Inv s) (m : Option String) (hm : m ≠ some "") :
    (s.step (.getTagKeys m)).2 = .strs (tagKeys s.storage m) :=
  read_out_eq s hs (.getTagKeys m) rfl hm (fun _ h => by simp [Spec.step] at h)
theorem fieldKeys_refines (s : State) (hs : Inv s) (m : Option String) (hm : m ≠ some "") :
    (s.step (.getFieldKeys m)).2 = .strs (fieldKeys s.storage m) :=
  read_out_eq s hs (.getFieldKeys m) rfl hm (fun _ h => by simp [Spec.step] at h)
/-- key → sorted values (None last); compared as a dict (key order irrelevant) -/
theorem tagValues_refines (s : State) (hs : Inv s) (keys : List String) (m : Option String) (hm : m ≠ some "") :
    canon (s.step (.getTagValues keys m)).2 = canon (.tagVals (tagValues s.storage keys m)) :=
  (step_read_refines s hs (.getTagValues keys m) rfl hm).1
theorem fieldValues_refines (s : State) (hs : Inv s) (k : String) (m : Option String) (hm : m ≠ some "") :
    (s.step (.getFieldValues k m)).2 = .nums (fieldValues s.storage k m) :=
  read_out_eq s hs (.getFieldValues k m) rfl hm (fun _ h => by simp [Spec.step] at h)
theorem timestamps_refines (s : State) (hs : Inv s) (m : Option String) (hm : m ≠ some "") :
    (s.step (.getTimestamps m)).2 = .times (timestamps s.storage m) :=
  read_out_eq s hs (.getTimestamps m) rfl hm (fun _ h => by simp [Spec.step] at h)
theorem len_refines (s : State) (hs : Inv s) : (s.step .len).2 = .nat s.storage.length :=
  read_out_eq s hs .len rfl (by simp [MeasOK]) (fun _ h => by simp [Spec.step] at h)
theorem iter_refines (s : State) (hs : Inv s) : (s.step .iter).2 = .points s.storage :=
  read_out_eq s hs .iter rfl (by simp [MeasOK]) (fun _ h => by simp [Spec.step] at h)
theorem all_refines (s : State) (hs : Inv s) (sorted : Bool) :
    (s.step (.all sorted)).2 = .points (Spec.all s.storage sorted) :=
  read_out_eq s hs (.all sorted) rfl (by simp [MeasOK]) (fun _ h => by simp [Spec.step] at h)
theorem measurement_len_refines (s : State) (hs : Inv s) (name : String) (hn : name ≠ "") :
    (s.step (.mlen name)).2 = .nat (s.storage.filter (fun p => p.meas == name)).length := by
  rw [read_out_eq s hs (.mlen name) rfl hn (fun _ h => by simp [Spec.step] at h)]
  simp only [Spec.step, restrict_some]
theorem measurement_iter_all_refines (s : State) (hs : Inv s) (name : String) (sorted : Bool) (hn : name ≠ "") :
    (s.step (.miter name)).2 = .points (s.storage.filter (fun p => p.meas == name)) ∧
    (s.step (.mall name sorted)).2 = .points (Spec.all (s.storage.filter (fun p => p.meas == name)) sorted) := by
  rw [read_out_eq s hs (.miter name) rfl hn (fun _ h => by simp [Spec.step] at h),
    read_out_eq s hs (.mall name sorted) rfl hn (fun _ h => by simp [Spec.step] at h)]
  simp only [Spec.step, restrict_some, and_self]

/-- getters never change storage -/
theorem getters_leave_storage (s : State) (hs : Inv s) (op : Op) (hr : isRead op = true) (hm : MeasOK op) :
    (s.step op).1.storage = s.storage :=
  (step_read_refines s hs op hr hm).2.1

/-! the documented orders, stated on the Spec: sorted-unique keys; values in insertion order -/
theorem measurements_sorted_unique (db : DB) :
    (measurements db).Pairwise (fun a b => a < b) ∧ ∀ s, s ∈ measurements db ↔ ∃ p ∈ db, p.meas = s := by
  refine ⟨sortStr_strict _ (nodup_eraseDups _), fun s => ?_⟩
  simp only [measurements, mem_sortStr, List.mem_eraseDups, List.mem_map]
theorem fieldValues_insertion_order (db : DB) (k : String) (m : Option String) :
    fieldValues db k m = (db.filter (fun p => m.all (· == p.meas))).filterMap (fun p => p.fields.lookup k) := rfl

end TinyFlux.Props.C07
