import TinyFlux.Props.C05
/-!
# C05 — non-vacuity witness

The codec is parametric in the `float` ⇄ text and `datetime` ⇄ ISO-text conversions (`FieldCodec`, `TimeCodec`) and
the theorems assume laws about them (`SentinelNotNumber`, and inside `Codable`: `fromIso (iso t) = some t`,
`parse (repr n) = some n`, `repr n` is not an integer literal). Here the parameters are instantiated with concrete
small tables — the texts Python produces for the values used — and the laws are proved for them; then a point with
awkward texts is shown to be `Codable`, and the round trip is computed cell by cell, in both prefix styles.
-/
namespace TinyFlux.Props.C05
open TinyFlux.Spec TinyFlux.Model.Codec TinyFlux.Generated

/-! ## concrete conversion tables -/

/-- `str(float(v))` / `float(s)` for the numbers used below (and nothing else: `float(s)` raises); the last entry is the
    integer 2⁵³ + 1, which `float` rounds to 2⁵³ -/
def witness_fc : FieldCodec :=
  { repr := fun n =>
      if n = .fin 3 then "3.0".toList else if n = .fin (5/2) then "2.5".toList
      else if n = .fin (-7) then "-7.0".toList else if n = .pinf then "inf".toList
      else if n = .fin 9007199254740993 then "9007199254740992.0".toList else "?".toList,
    parse := fun s =>
      if s = "3.0".toList then some (.fin 3) else if s = "2.5".toList then some (.fin (5/2))
      else if s = "-7.0".toList then some (.fin (-7)) else if s = "inf".toList then some .pinf
      else if s = "9007199254740992.0".toList then some (.fin 9007199254740992) else none }

/-- `isoformat()` / `fromisoformat()` for two instants -/
def witness_tc : TimeCodec :=
  { iso := fun t =>
      if t = 1700000000123456 then "2023-11-14T22:13:20.123456".toList
      else if t = 0 then "1970-01-01T00:00:00".toList else "?".toList,
    fromIso := fun s =>
      if s = "2023-11-14T22:13:20.123456".toList then some 1700000000123456
      else if s = "1970-01-01T00:00:00".toList then some 0 else none }

/-- the law the theorems assume of the field codec: `float("_none")` raises -/
theorem witness_sentinel : SentinelNotNumber witness_fc := by
  show witness_fc.parse noneS = none
  decide +kernel

/-- the laws `Codable` asks of the conversions, for every number the table knows: the text parses back to the number,
    is not empty, is not an integer literal (`3` is written `3.0`) and not a negative one (`-7` is written `-7.0`) -/
theorem witness_fc_laws :
    ∀ n ∈ [Num.fin 3, .fin (5/2), .fin (-7), .pinf],
      witness_fc.parse (witness_fc.repr n) = some n ∧ witness_fc.repr n ≠ [] ∧ isDigits (witness_fc.repr n) = false ∧
      ((witness_fc.repr n).head? == some '-' && isDigits (witness_fc.repr n).tail) = false := by
  decide +kernel

theorem witness_tc_laws : ∀ t ∈ [(1700000000123456 : Int), 0], witness_tc.fromIso (witness_tc.iso t) = some t := by
  decide +kernel

/-! ## a point with awkward texts -/

/-- a measurement with a comma and a space; a tag value with a comma, a double quote and a newline; a tag key that
    looks like a compact tag prefix, one that looks like a field prefix; a `None` tag value; an empty tag value; a tag
    value that is almost the sentinel; field keys starting with `t`, `t_`, `_tag_`; an integer, a non-integer, a
    negative, an infinite and a `None` field value -/
def witness_p : Point :=
  { time := 1700000000123456,
    meas := "cpu, load",
    tags := [("host", some "a,\"b\"\nc"), ("t_zone", none), ("_field_x", some ""), ("f_", some "_None")],
    fields := [("temp", some (.fin 3)), ("t_load", some (.fin (5/2))), ("_tag_neg", some (.fin (-7))),
               ("top", some .pinf), ("f", none)] }

/-- a second, different point -/
def witness_q : Point :=
  { time := 0, meas := "cpu, load", tags := [("host", none)], fields := [("temp", some (.fin (5/2)))] }

/-- the guard of `row_roundtrip_partial` / `injective_partial` holds of it -/
theorem witness_codable : Codable witness_fc witness_tc witness_p where
  timeOk := by decide +kernel
  measOk := fun _ => by decide +kernel
  tagKeys := by decide +kernel
  fieldKeys := by decide +kernel
  tagVals := by decide +kernel
  fieldVals := by
    intro kv hkv n hn
    have hmem : n ∈ [Num.fin 3, .fin (5/2), .fin (-7), .pinf] := by
      simp only [witness_p, List.mem_cons, List.not_mem_nil, or_false] at hkv
      rcases hkv with rfl | rfl | rfl | rfl | rfl <;> simp at hn <;> subst hn <;> simp
    obtain ⟨h1, h2, h3, h4⟩ := witness_fc_laws n hmem
    refine ⟨h1, h2, h3, ?_⟩
    rintro ⟨t, ht, hd⟩
    simp [ht, hd] at h4

theorem witness_codable_q : Codable witness_fc witness_tc witness_q where
  timeOk := by decide +kernel
  measOk := fun _ => by decide +kernel
  tagKeys := by decide +kernel
  fieldKeys := by decide +kernel
  tagVals := by decide +kernel
  fieldVals := by
    intro kv hkv n hn
    have hmem : n ∈ [Num.fin 3, .fin (5/2), .fin (-7), .pinf] := by
      simp only [witness_q, List.mem_cons, List.not_mem_nil, or_false] at hkv
      subst hkv; simp at hn; subst hn; simp
    obtain ⟨h1, h2, h3, h4⟩ := witness_fc_laws n hmem
    refine ⟨h1, h2, h3, ?_⟩
    rintro ⟨t, ht, hd⟩
    simp [ht, hd] at h4

/-! ## the theorems, instantiated -/

/-- `row_roundtrip_partial` in both prefix styles -/
theorem witness_roundtrip (compact : Bool) :
    deserialize witness_fc witness_tc (serialize witness_fc witness_tc compact witness_p) = some witness_p :=
  row_roundtrip_partial witness_fc witness_tc witness_sentinel compact witness_p witness_codable

/-- the row that is written (default prefixes): 20 cells; the integer field is written `3.0`, `None` is written `_none` -/
theorem witness_row :
    serialize witness_fc witness_tc false witness_p =
      ["2023-11-14T22:13:20.123456", "cpu, load",
       "_tag_host", "a,\"b\"\nc", "_tag_t_zone", "_none", "_tag__field_x", "", "_tag_f_", "_None",
       "_field_temp", "3.0", "_field_t_load", "2.5", "_field__tag_neg", "-7.0", "_field_top", "inf",
       "_field_f", "_none"].map String.toList := by
  decide +kernel

/-- … and with compact prefixes, where the field key `t_load` becomes `f_t_load` and the tag key `f_` becomes `t_f_` -/
theorem witness_row_compact :
    serialize witness_fc witness_tc true witness_p =
      ["2023-11-14T22:13:20.123456", "cpu, load",
       "t_host", "a,\"b\"\nc", "t_t_zone", "_none", "t__field_x", "", "t_f_", "_None",
       "f_temp", "3.0", "f_t_load", "2.5", "f__tag_neg", "-7.0", "f_top", "inf", "f_f", "_none"].map String.toList := by
  decide +kernel

/-- the decoder, run on these 20 cells, gives back the point: computed, independently of the theorem -/
theorem witness_roundtrip_computed :
    deserialize witness_fc witness_tc (serialize witness_fc witness_tc false witness_p) = some witness_p ∧
    deserialize witness_fc witness_tc (serialize witness_fc witness_tc true witness_p) = some witness_p := by
  decide +kernel

/-- `tags_stay_tags_fields_stay_fields` -/
theorem witness_tags_fields :
    ∃ q, deserialize witness_fc witness_tc (serialize witness_fc witness_tc true witness_p) = some q ∧
      q.tags = witness_p.tags ∧ q.fields = witness_p.fields :=
  tags_stay_tags_fields_stay_fields witness_fc witness_tc witness_sentinel true witness_p witness_codable

/-- `injective_partial`, contrapositive, at two distinct codable points and mixed styles: the rows differ -/
theorem witness_rows_differ :
    serialize witness_fc witness_tc false witness_p ≠ serialize witness_fc witness_tc true witness_q :=
  fun h => absurd (injective_partial witness_fc witness_tc witness_sentinel false true witness_p witness_q
    witness_codable witness_codable_q h) (by decide +kernel)

/-- `sniffing_sound` at the awkward keys -/
example := sniffing_sound true "t_load".toList
example := sniffing_sound false "_tag_neg".toList

/-- the guard is not always true: a tag whose value is the sentinel text is not `Codable`, and does not survive -/
theorem witness_not_codable :
    ¬ Codable witness_fc witness_tc { time := 0, meas := "m", tags := [("a", some "_none")], fields := [] } :=
  fun h => h.tagVals ("a", some "_none") (by simp) rfl

example := counterexample_none_sentinel witness_fc witness_tc (by decide +kernel)
example := empty_measurement_roundtrips witness_fc witness_tc (by decide +kernel)

/-- `counterexample_unrepresentable` at 2⁵³ + 1: its hypotheses are satisfiable too, and it comes back as 2⁵³ -/
theorem witness_unrepresentable :
    deserialize witness_fc witness_tc (serialize witness_fc witness_tc false
        { time := 0, meas := "m", tags := [], fields := [("f", some (.fin 9007199254740993))] })
      = some { time := 0, meas := "m", tags := [], fields := [("f", some (.fin 9007199254740992))] } := by
  refine counterexample_unrepresentable witness_fc witness_tc (by decide +kernel) _ _ (by decide +kernel)
    (by decide +kernel) ⟨by decide +kernel, by decide +kernel, ?_⟩
  rintro ⟨t, ht, hd⟩
  have h : ((witness_fc.repr (.fin 9007199254740993)).head? == some '-') = false := by decide +kernel
  simp [ht] at h

end TinyFlux.Props.C05
