import TinyFlux.Model.IO
import TinyFlux.Lemmas.IOLemmas
import TinyFlux.Generated.Modes
import TinyFlux.Generated.Decorators
/-!
# C15 — reads and no-op writes change nothing and leave nothing behind (partial)

(T) over the access-mode tuples of `CSVStorage.can_*` and the decorator stack of every public
`TinyFlux` method, both regenerated from the source: in mode `"r"` every mutating method's gate
raises, and the gate is applied *outside* `temp_storage_op`, i.e. before any I/O.
(C) over the step lists: reads make no mutating call; a remove/update that changes nothing never
touches the database file; every operation that creates a temp file removes it again.
*Partial*: directory listings and file bytes are observed on the real code by the harness; the OS is
not modelled beyond the two files.
-/
namespace TinyFlux.Props.C15
open TinyFlux.Model.IO TinyFlux.Generated
variable {R : Type}

def mutating : List String :=
  ["insert", "insert_multiple", "remove", "remove_all", "drop_measurement", "update", "update_all"]

def decosOf (meth : String) : List Deco := (decorators.lookup meth).getD []

/-- does the gate of this decorator let the mode through? -/
def gateOK (mode : String) : Deco → Bool
  | .readOp => modesRead.contains mode
  | .writeOp => modesWrite.contains mode
  | .appendOp => modesAppend.contains mode
  | .tempStorageOp => true

/-- the decorators are applied outermost first: a failing gate is reached before `temp_storage_op`
    iff it occurs earlier in the list -/
def raisesBeforeIO (mode : String) (ds : List Deco) : Bool :=
  match ds.findIdx? (fun d => !gateOK mode d), ds.findIdx? (fun d => d == .tempStorageOp) with
  | some i, some j => i < j
  | some _, none => true
  | none, _ => false

/-- on a database opened read-only, every mutating method raises before any I/O is performed -/
theorem readonly_mode_raises_before_io :
    mutating.all (fun m => raisesBeforeIO "r" (decosOf m)) = true ∧
    mutating.all (fun m => (decorators.lookup m).isSome) = true := by
  decide

/-- every query / getter method is a `read_op` (auto-reindex happens there) and none of them is a write -/
theorem read_methods_gated :
    ["all", "contains", "count", "get", "get_field_keys", "get_field_values", "get_measurements", "get_tag_keys",
     "get_tag_values", "get_timestamps", "search", "select"].all
      (fun m => decosOf m == [.readOp]) = true := by
  decide

/-- append-only and write-only modes cannot read -/
theorem mode_tables_consistent :
    modesRead.contains "r" = true ∧ modesWrite.contains "r" = false ∧ modesAppend.contains "r" = false ∧
    modesWrite.contains "a" = false ∧ modesAppend.contains "a" = true ∧ modesRead.contains "a" = false ∧
    ["r+", "w+"].all (fun m => modesRead.contains m && modesWrite.contains m && modesAppend.contains m) = true := by
  decide

/-- reads make no mutating call and leave the file as it is -/
theorem reads_emit_no_mutating_step (fs : FS R) :
    (∀ s ∈ scanSteps (R := R), s.mutatesPrimary = false) ∧
    (run fs (scanSteps (R := R))).primary ++ (run fs (scanSteps (R := R))).pendP = fs.primary ++ fs.pendP := by
  constructor
  · simp [scanSteps, Step.mutatesPrimary]
  · simp [scanSteps, exec]

/-- a remove / update that matches or changes nothing never touches the database file … -/
theorem noop_write_no_swap (flush : Bool) (rows : List (Option R)) (scanned : Bool) :
    ∀ s ∈ noopRewriteSteps flush rows scanned, s.mutatesPrimary = false := by
  exact fun s hs => Step.not_mutates_of_safe (noopRewriteSteps_safe flush rows scanned s hs)

/-- … and every operation that creates a temp file has removed it when it returns -/
theorem temp_files_balanced (fs : FS R) (hq : fs.temp = none) (flush : Bool) (rows : List (Option R)) (b : Bool) :
    (run fs (rewriteSteps flush rows b)).temp = none ∧ (run fs (noopRewriteSteps flush rows b)).temp = none ∧
    (run fs (resetInTempSteps flush rows b)).temp = none := by
  have _ := hq  -- holds from any state
  refine ⟨(rewrite_full fs flush rows b).2.2.1, ?_, (resetInTemp_full fs flush rows b).2.2.1⟩
  unfold noopRewriteSteps
  rw [run_append]
  exact (run_cleanup _).2.2.1

/-- … also when it raises part-way: `temp_storage_op` cleans up in a `finally` clause, i.e. after any
    prefix of the operation's steps the cleanup `[close temp, unlink temp]` runs -/
theorem temp_files_balanced_on_error (fs : FS R) (hq : fs.temp = none) (steps : List (Step R)) (k : Nat) :
    tempCleanupInFinally = true ∧ (run fs (steps.take k ++ [.tClose, .tUnlink])).temp = none := by
  have _ := hq  -- holds from any state
  refine ⟨by decide, ?_⟩
  rw [run_append]
  exact (run_cleanup _).2.2.1

end TinyFlux.Props.C15
