import TinyFlux.Model.QHash
/-!
# C17 — queries that compare equal behave identically

Stated over query *syntax* (`SQ`), the hash each DSL constructor attaches according to the tables
regenerated from `queries.py` (`Generated.hashShape`, `Generated.compoundHash`), and `==` as the code
defines it. User predicates, map functions and the regex engine are an arbitrary `Env`.
The theorems hold for all queries of any depth.
-/
namespace TinyFlux.Props.C17
open TinyFlux.Spec TinyFlux.Model.QHash TinyFlux.Generated

set_option linter.unusedSimpArgs false

/-- the hash tuple of a leaf -/
def leafTuple (a : Attr) (ks : List String) (l : SLeaf) : List HAtom :=
  (shapeOf (ctorName a l)).filterMap (comp a ks l)

def cmpOp : Cmp → String
  | .eq => "==" | .ne => "!=" | .lt => "<" | .le => "<=" | .gt => ">" | .ge => ">="

/-! The hash tuples, computed from the generated table. Each parameter a leaf's meaning depends on
    occurs in its tuple (these equations fail to check when `queries.py` drops a component). -/
theorem tup_cmp (a : Attr) (ks : List String) (c : Cmp) (r : PyV) :
    leafTuple a ks (.cmp c r) = [.attr a, .op (cmpOp c), .path ks, .val r] := by cases c <;> rfl
theorem tup_exists (a : Attr) (ks : List String) :
    leafTuple a ks .exists = [.attr a, .op "exists", .path ks] := by cases a <;> rfl
theorem tup_matches (a : Attr) (ks : List String) (r : String) (f : Nat) :
    leafTuple a ks (.matches r f) = [.attr a, .op "matches", .path ks, .str r, .nat f] := rfl
theorem tup_search (a : Attr) (ks : List String) (r : String) (f : Nat) :
    leafTuple a ks (.search r f) = [.attr a, .op "search", .path ks, .str r, .nat f] := rfl
theorem tup_test (a : Attr) (ks : List String) (f : Nat) (as : List PyV) :
    leafTuple a ks (.test f as) = [.attr a, .op "test", .path ks, .fn f, .vals as] := rfl

theorem cmpOp_inj (c c' : Cmp) (h : cmpOp c = cmpOp c') : c = c' := by
  cases c <;> cases c' <;> first | rfl | (exact absurd h (by decide))

/-- every parameter a leaf's meaning depends on occurs in its hash tuple: equal tuples come from the
    same attribute, the same key path and the same leaf -/
theorem leaf_hash_inj (a a' : Attr) (ks ks' : List String) (l l' : SLeaf)
    (h : leafTuple a ks l = leafTuple a' ks' l') : a = a' ∧ ks = ks' ∧ l = l' := by
  cases l <;> cases l' <;>
    simp only [tup_cmp, tup_exists, tup_matches, tup_search, tup_test, List.cons.injEq, HAtom.attr.injEq,
      HAtom.op.injEq, HAtom.path.injEq, HAtom.val.injEq, HAtom.str.injEq, HAtom.nat.injEq, HAtom.fn.injEq,
      HAtom.vals.injEq, reduceCtorEq, and_false, false_and, and_true, List.cons_ne_nil, List.nil_eq] at h
  · obtain ⟨rfl, hc, rfl, rfl⟩ := h
    exact ⟨rfl, rfl, by rw [cmpOp_inj _ _ hc]⟩
  · exact ⟨h.1, h.2.2, rfl⟩
  · obtain ⟨rfl, -, rfl, rfl, rfl⟩ := h; exact ⟨rfl, rfl, rfl⟩
  · exact absurd h.2.1 (by decide)
  · exact absurd h.2.1 (by decide)
  · obtain ⟨rfl, -, rfl, rfl, rfl⟩ := h; exact ⟨rfl, rfl, rfl⟩
  · obtain ⟨rfl, -, rfl, rfl, rfl⟩ := h; exact ⟨rfl, rfl, rfl⟩

/-- a leaf's hash tuple is never the empty tuple -/
theorem leaf_hash_ne_nil (a : Attr) (ks : List String) (l : SLeaf) : leafTuple a ks l ≠ [] := by
  cases l <;> simp [tup_cmp, tup_exists, tup_matches, tup_search, tup_test]

theorem keysOf_eq {p : List Step} {ks : List String} (h : keysOf p = some ks) : p = ks.map .key := by
  induction p generalizing ks with
  | nil => simp [keysOf] at h; simp [← h]
  | cons s t ih =>
    cases s with
    | key k =>
      simp only [keysOf, Option.map_eq_some_iff] at h
      obtain ⟨ks', hk, rfl⟩ := h
      simp [ih hk]
    | map f => simp [keysOf] at h

/-- the tags of `&`, `|` and `~` are pairwise distinct whatever the class of the left operand -/
theorem opTags_distinct (c c' : Cls) :
    opTag c "__and__" ≠ opTag c' "__or__" := by
  cases c <;> cases c' <;> decide

/-- equal hash values (Python `==`) come from queries with the same truth value on every point -/
theorem heq_sound (env : Env) (q1 q2 : SQ) (h1 h2 : HV) (e1 : hashOf q1 = some h1) (e2 : hashOf q2 = some h2)
    (he : heq h1 h2 = true) (p : Point) : evalS env q1 p = evalS env q2 p := by
  induction q1 generalizing q2 h1 h2 with
  | simple a path l =>
    cases q2 with
    | simple a' path' l' =>
      simp only [hashOf] at e1 e2
      cases hk : keysOf path with
      | none => simp [hk] at e1
      | some ks =>
        cases hk' : keysOf path' with
        | none => simp [hk'] at e2
        | some ks' =>
          simp only [hk, hk', Option.some.injEq] at e1 e2
          subst e1; subst e2
          simp only [heq, beq_iff_eq] at he
          obtain ⟨rfl, rfl, rfl⟩ := leaf_hash_inj _ _ _ _ _ _ he
          rw [keysOf_eq hk, keysOf_eq hk']
    | noop a' =>
      simp only [hashOf] at e1 e2
      cases hk : keysOf path with
      | none => simp [hk] at e1
      | some ks =>
        simp only [hk, Option.some.injEq] at e1 e2
        subst e1; subst e2
        simp only [heq, beq_iff_eq] at he
        exact absurd he (leaf_hash_ne_nil _ _ _)
    | not q => simp only [hashOf] at e1 e2; cases hk : keysOf path <;> simp [hk] at e1; cases hq : hashOf q <;> simp [hq] at e2; subst e1; subst e2; simp [heq] at he
    | and q r => simp only [hashOf] at e1 e2; cases hk : keysOf path <;> simp [hk] at e1; cases hq : hashOf q <;> cases hr : hashOf r <;> simp [hq, hr] at e2; subst e1; subst e2; simp [heq] at he
    | or q r => simp only [hashOf] at e1 e2; cases hk : keysOf path <;> simp [hk] at e1; cases hq : hashOf q <;> cases hr : hashOf r <;> simp [hq, hr] at e2; subst e1; subst e2; simp [heq] at he
  | noop a =>
    simp only [hashOf, Option.some.injEq] at e1
    subst e1
    cases q2 with
    | simple a' path' l' =>
      simp only [hashOf] at e2
      cases hk : keysOf path' with
      | none => simp [hk] at e2
      | some ks =>
        simp only [hk, Option.some.injEq] at e2
        subst e2
        simp only [heq, beq_iff_eq] at he
        exact absurd he.symm (leaf_hash_ne_nil _ _ _)
    | noop a' => simp [evalS]
    | not q => simp only [hashOf] at e2; cases hq : hashOf q <;> simp [hq] at e2; subst e2; simp [heq] at he
    | and q r => simp only [hashOf] at e2; cases hq : hashOf q <;> cases hr : hashOf r <;> simp [hq, hr] at e2; subst e2; simp [heq] at he
    | or q r => simp only [hashOf] at e2; cases hq : hashOf q <;> cases hr : hashOf r <;> simp [hq, hr] at e2; subst e2; simp [heq] at he
  | not q ih =>
    simp only [hashOf] at e1
    cases hq : hashOf q with
    | none => simp [hq] at e1
    | some hq1 =>
      simp only [hq, Option.map_some, Option.some.injEq] at e1
      subst e1
      cases q2 with
      | simple a' path' l' => simp only [hashOf] at e2; cases hk : keysOf path' <;> simp [hk] at e2; subst e2; simp [heq] at he
      | noop a' => simp only [hashOf, Option.some.injEq] at e2; subst e2; simp [heq] at he
      | not q' =>
        simp only [hashOf] at e2
        cases hq' : hashOf q' with
        | none => simp [hq'] at e2
        | some hq2 =>
          simp only [hq', Option.map_some, Option.some.injEq] at e2
          subst e2
          simp only [heq, Bool.and_eq_true] at he
          simp [evalS, ih q' hq1 hq2 hq hq' he.2]
      | and q' r' => simp only [hashOf] at e2; cases hq' : hashOf q' <;> cases hr' : hashOf r' <;> simp [hq', hr'] at e2; subst e2; simp [heq] at he
      | or q' r' => simp only [hashOf] at e2; cases hq' : hashOf q' <;> cases hr' : hashOf r' <;> simp [hq', hr'] at e2; subst e2; simp [heq] at he
  | and q r ihq ihr =>
    simp only [hashOf] at e1
    cases hq : hashOf q with
    | none => simp [hq] at e1
    | some a1 =>
      cases hr : hashOf r with
      | none => simp [hq, hr] at e1
      | some b1 =>
        simp only [hq, hr, Option.some.injEq] at e1
        subst e1
        cases q2 with
        | simple a' path' l' => simp only [hashOf] at e2; cases hk : keysOf path' <;> simp [hk] at e2; subst e2; simp [heq] at he
        | noop a' => simp only [hashOf, Option.some.injEq] at e2; subst e2; simp [heq] at he
        | not q' => simp only [hashOf] at e2; cases hq' : hashOf q' <;> simp [hq'] at e2; subst e2; simp [heq] at he
        | and q' r' =>
          simp only [hashOf] at e2
          cases hq' : hashOf q' with
          | none => simp [hq'] at e2
          | some a2 =>
            cases hr' : hashOf r' with
            | none => simp [hq', hr'] at e2
            | some b2 =>
              simp only [hq', hr', Option.some.injEq] at e2
              subst e2
              simp only [heq, Bool.and_eq_true, Bool.or_eq_true] at he
              rcases he.2 with ⟨x, y⟩ | ⟨x, y⟩
              · simp [evalS, ihq q' a1 a2 hq hq' x, ihr r' b1 b2 hr hr' y]
              · simp [evalS, ihq r' a1 b2 hq hr' x, ihr q' b1 a2 hr hq' y, Bool.and_comm]
        | or q' r' =>
          simp only [hashOf] at e2
          cases hq' : hashOf q' <;> cases hr' : hashOf r' <;> simp [hq', hr'] at e2
          subst e2
          simp only [heq, Bool.and_eq_true, beq_iff_eq] at he
          exact absurd he.1 (opTags_distinct _ _)
  | or q r ihq ihr =>
    simp only [hashOf] at e1
    cases hq : hashOf q with
    | none => simp [hq] at e1
    | some a1 =>
      cases hr : hashOf r with
      | none => simp [hq, hr] at e1
      | some b1 =>
        simp only [hq, hr, Option.some.injEq] at e1
        subst e1
        cases q2 with
        | simple a' path' l' => simp only [hashOf] at e2; cases hk : keysOf path' <;> simp [hk] at e2; subst e2; simp [heq] at he
        | noop a' => simp only [hashOf, Option.some.injEq] at e2; subst e2; simp [heq] at he
        | not q' => simp only [hashOf] at e2; cases hq' : hashOf q' <;> simp [hq'] at e2; subst e2; simp [heq] at he
        | or q' r' =>
          simp only [hashOf] at e2
          cases hq' : hashOf q' with
          | none => simp [hq'] at e2
          | some a2 =>
            cases hr' : hashOf r' with
            | none => simp [hq', hr'] at e2
            | some b2 =>
              simp only [hq', hr', Option.some.injEq] at e2
              subst e2
              simp only [heq, Bool.and_eq_true, Bool.or_eq_true] at he
              rcases he.2 with ⟨x, y⟩ | ⟨x, y⟩
              · simp [evalS, ihq q' a1 a2 hq hq' x, ihr r' b1 b2 hr hr' y]
              · simp [evalS, ihq r' a1 b2 hq hr' x, ihr q' b1 a2 hr hq' y, Bool.or_comm]
        | and q' r' =>
          simp only [hashOf] at e2
          cases hq' : hashOf q' <;> cases hr' : hashOf r' <;> simp [hq', hr'] at e2
          subst e2
          simp only [heq, Bool.and_eq_true, beq_iff_eq] at he
          exact absurd he.1.symm (opTags_distinct _ _)

/-- **C17**: two queries that compare equal evaluate to the same truth value on every point -/
theorem eq_sound (env : Env) (q1 q2 : SQ) (h : qeq q1 q2 = true) (p : Point) :
    evalS env q1 p = evalS env q2 p := by
  unfold qeq at h
  cases e1 : hashOf q1 with
  | none => simp [e1] at h
  | some h1 =>
    cases e2 : hashOf q2 with
    | none => simp [e1, e2] at h
    | some h2 =>
      simp only [e1, e2, Bool.and_eq_true] at h
      exact heq_sound env q1 q2 h1 h2 e1 e2 h.2 p

theorem heq_refl (h : HV) : heq h h = true := by
  induction h with
  | tuple l => simp [heq]
  | pair n a b iha ihb => simp [heq, iha, ihb]
  | un n a ih => simp [heq, ih]

/-- `a & b == b & a` and `a | b == b | a` for hashable operands -/
theorem and_comm_eq (a b : SQ) (ha : (hashOf a).isSome) (hb : (hashOf b).isSome) :
    qeq (.and a b) (.and b a) = true := by
  obtain ⟨x, hx⟩ := Option.isSome_iff_exists.mp ha
  obtain ⟨y, hy⟩ := Option.isSome_iff_exists.mp hb
  have hn : opTag (cls a) "__and__" = opTag (cls b) "__and__" := by
    cases cls a <;> cases cls b <;> decide
  simp [qeq, hashOf, hx, hy, truthy, heq, heq_refl, hn]

theorem or_comm_eq (a b : SQ) (ha : (hashOf a).isSome) (hb : (hashOf b).isSome) :
    qeq (.or a b) (.or b a) = true := by
  obtain ⟨x, hx⟩ := Option.isSome_iff_exists.mp ha
  obtain ⟨y, hy⟩ := Option.isSome_iff_exists.mp hb
  have hn : opTag (cls a) "__or__" = opTag (cls b) "__or__" := by
    cases cls a <;> cases cls b <;> decide
  simp [qeq, hashOf, hx, hy, truthy, heq, heq_refl, hn]

theorem hashOf_none_of_hasMap (q : SQ) (h : hasMap q = true) : hashOf q = none := by
  induction q with
  | simple a path l =>
    simp only [hasMap] at h
    have : keysOf path = none := by
      induction path with
      | nil => simp at h
      | cons s t ih =>
        cases s with
        | key k =>
          simp only [List.any_cons, Bool.false_or] at h
          simp [keysOf, ih h]
        | map f => simp [keysOf]
    simp [hashOf, this]
  | noop a => simp [hasMap] at h
  | not q ih => simp only [hasMap] at h; simp [hashOf, ih h]
  | and q r ihq ihr =>
    simp only [hasMap, Bool.or_eq_true] at h
    rcases h with h | h
    · simp [hashOf, ihq h]
    · simp only [hashOf, ihr h]; cases hashOf q <;> rfl
  | or q r ihq ihr =>
    simp only [hasMap, Bool.or_eq_true] at h
    rcases h with h | h
    · simp [hashOf, ihq h]
    · simp only [hashOf, ihr h]; cases hashOf q <;> rfl

/-- a query containing a map function is never equal to anything (not even to itself) -/
theorem map_never_equal (q r : SQ) (h : hasMap q = true) : qeq q r = false ∧ qeq r q = false := by
  have := hashOf_none_of_hasMap q h
  constructor
  · simp [qeq, this]
  · simp only [qeq, this]; cases hashOf r <;> rfl

/-- a bare `noop` query is never equal to anything -/
theorem noop_never_equal (a : Attr) (r : SQ) : qeq (.noop a) r = false := by
  simp only [qeq, hashOf]
  cases hashOf r <;> simp [truthy]

/-! non-vacuity: two syntactically different but equal queries, and a non-equal pair -/
example : qeq (.and (.simple .tags [.key "a"] (.cmp .eq (.str "x"))) (.simple .fields [.key "f"] .exists))
              (.and (.simple .fields [.key "f"] .exists) (.simple .tags [.key "a"] (.cmp .eq (.str "x")))) = true := by
  decide
example : qeq (.simple .tags [.key "a"] (.matches "x" 0)) (.simple .tags [.key "a"] (.matches "x" 2)) = false := by
  decide

end TinyFlux.Props.C17
