import TinyFlux.Mirror.Getters
import TinyFlux.Mirror.TagsNE
import TinyFlux.Mirror.DbGetters
import TinyFlux.Mirror.DbReindex
import TinyFlux.Mirror.DbTagValues
/-!
# C07 over the translated source: the getters of `tinyflux/index.py`

`Index.get_measurements / get_field_keys / get_field_values / get_tag_keys / get_tag_values / get_timestamps`
translated statement by statement from the working tree (`Generated/IndexImpl.lean`, regenerated on every run)
return, on every state the translated maintenance methods can produce (dict-shaped, no tag key with an empty inner
dict), exactly what the Model's getters return on the `abs`-read state — which `Props/C07.lean` proves equal to the
Spec's answers whenever the index represents the storage. The measurement argument `""` is excluded (the code reads it
as "no filter": recorded finding `empty-measurement-name`).
-/
namespace TinyFlux.Props.C07
open TinyFlux.Spec TinyFlux.Model TinyFlux.Mirror TinyFlux.Generated

theorem translated_getters (g : GSelf) (hg : GWF g) (hne : TagsNE g._tags) (m : Option String) (hm : m ≠ some "") :
    IndexImpl.get_measurements g = .ok (Mirror.abs g).getMeasurements
    ∧ IndexImpl.get_field_keys g m = .ok ((Mirror.abs g).getFieldKeys m)
    ∧ (∀ k, IndexImpl.get_field_values g k m = .ok ((Mirror.abs g).getFieldValues k m))
    ∧ IndexImpl.get_tag_keys g m = .ok ((Mirror.abs g).getTagKeys m)
    ∧ (∀ keys, keys.Nodup → IndexImpl.get_tag_values g keys m = .ok ((Mirror.abs g).getTagValues keys m))
    ∧ IndexImpl.get_timestamps g m = .ok ((Mirror.abs g).getTimestamps m) :=
  ⟨get_measurements_ok g hg, get_field_keys_ok g hg m hm, fun k => get_field_values_ok g hg k m hm,
   get_tag_keys_ok g hg hne m hm, fun keys hk => get_tag_values_ok g hg hne keys hk m hm, get_timestamps_ok g hg m hm⟩

/-- the hypotheses of `translated_getters` hold of every state the translated maintenance methods produce -/
theorem translated_states_are_dict_shaped (g : GSelf) :
    (∀ pts g', IndexImpl.build g pts = .ok g' → GWF g' ∧ TagsNE g'._tags)
    ∧ (GWF g → TagsNE g._tags →
        (∀ pts g', g._timestamps.length = g._storage_pos_sorted_by_ts.length → IndexImpl.insert g pts = .ok g' →
            GWF g' ∧ TagsNE g'._tags)
        ∧ (∀ r g', IndexImpl.remove g r = .ok g' → GWF g' ∧ TagsNE g'._tags)
        ∧ (∀ u g', IndexImpl.update g u = .ok g' → GWF g' ∧ TagsNE g'._tags)) := by
  refine ⟨fun pts g' h => ?_, fun hg hne => ⟨fun pts g' hl h => ?_, fun r g' h => ?_, fun u g' h => ?_⟩⟩
  · obtain ⟨g'', h1, h2, _⟩ := build_ok g pts
    have e : g'' = g' := by rw [h1] at h; injection h
    subst e
    exact ⟨h2, build_ne g pts g'' h1⟩
  · obtain ⟨g'', h1, h2, _⟩ := insert_ok g pts hg hl
    have e : g'' = g' := by rw [h1] at h; injection h
    subst e
    exact ⟨h2, insert_ne g pts hg hne g'' h1⟩
  · by_cases hle : r.length ≤ g._num_items
    · obtain ⟨g'', h1, h2, _⟩ := remove_ok g r hg hle
      have e : g'' = g' := by rw [h1] at h; injection h
      subst e
      exact ⟨h2, remove_ne g r hg g'' h1⟩
    · rw [remove_range g r hg (by omega)] at h; cases h
  · obtain ⟨g'', h1, h2, _⟩ := update_ok g u hg
    have e : g'' = g' := by rw [h1] at h; injection h
    subst e
    exact ⟨h2, update_ne g u hg hne g'' h1⟩

/-- the getters of `TinyFlux` itself (database.py), as translated: `len(db)`, `get_measurements`, `get_field_keys`,
    `get_tag_keys`, `get_field_values`, `get_timestamps` — index path (the translated index getter, sorted where the API
    sorts) and scan path (the loop over storage with the measurement filter) — return what the Model's `step` answers on the
    `absDB`-read state (`Mirror.model_getters_are_step`), which `Props/C07.lean` proves to be the Spec's answer -/
theorem translated_db_getters (norm : Point → Point) (g : DSelf) (hg : GWF g._index) (hne : TagsNE g._index._tags)
    (hwf : ∀ p ∈ g._storage._items, WFPoint p) (m : Option String) (hm : m ≠ some "") :
    DatabaseImpl.__len__ g = .ok (modelLen (absDB norm g))
    ∧ DatabaseImpl.get_measurements g = .ok (modelMeasurements (absDB norm g))
    ∧ DatabaseImpl.get_field_keys g m = .ok (modelFieldKeys (absDB norm g) m)
    ∧ DatabaseImpl.get_tag_keys g m = .ok (modelTagKeys (absDB norm g) m)
    ∧ (∀ k, DatabaseImpl.get_field_values g k m = .ok (modelFieldValues (absDB norm g) k m))
    ∧ (DatabaseImpl.get_timestamps g m).map (fun l => l.map (·.us)) = .ok (modelTimestamps (absDB norm g) m) :=
  ⟨len_ok norm g, db_get_measurements_ok norm g hg, db_get_field_keys_ok norm g hg m hm,
   db_get_tag_keys_ok norm g hg hne m hm, fun k => db_get_field_values_ok norm g hg hwf k m hm,
   db_get_timestamps_ok norm g hg m hm⟩

/-- … and those `model…` functions are literally what `State.step` answers -/
theorem model_getters_are_the_models_step (s : State) (k : String) (m : Option String) :
    (s.step .len).2 = .nat (modelLen s)
    ∧ (s.step .getMeasurements).2 = .strs (modelMeasurements s.readOp)
    ∧ (s.step (.getFieldKeys m)).2 = .strs (modelFieldKeys s.readOp m)
    ∧ (s.step (.getTagKeys m)).2 = .strs (modelTagKeys s.readOp m)
    ∧ (s.step (.getFieldValues k m)).2 = .nums (modelFieldValues s.readOp k m)
    ∧ (s.step (.getTimestamps m)).2 = .times (modelTimestamps s.readOp m) :=
  model_getters_are_step s k m

/-- `TinyFlux.get_tag_values(tag_keys, measurement)` of database.py as translated (index path: the translated index getter, each
    value list sorted with `None` last; scan path: requested keys sorted and present even without values, every stored point of
    the measurement contributing its requested tags): what the Model's `step` answers for `.getTagValues`
    (`model_tag_values_is_the_models_step`) -/
theorem translated_db_get_tag_values (norm : Point → Point) (g : DSelf) (hg : GWF g._index) (hne : TagsNE g._index._tags)
    (keys : List String) (hk : keys.Nodup) (m : Option String) (hm : m ≠ some "") :
    DatabaseImpl.get_tag_values g keys m = .ok (modelTagValues (absDB norm g) keys m) :=
  db_get_tag_values_ok norm g hg hne keys hk m hm

theorem model_tag_values_is_the_models_step (s : State) (keys : List String) (m : Option String) :
    (s.step (.getTagValues keys m)).2 = .tagVals (modelTagValues s.readOp keys m) :=
  model_tag_values_is_step s keys m

/-- `TinyFlux.all(sorted)` as translated: every stored row, in a stable time order when asked for — and that is what the
    Model's `step` answers for `.all sorted` -/
theorem translated_all (norm : Point → Point) (g : DSelf) (sorted : Bool) :
    DatabaseImpl.all g sorted = .ok (if sorted then State.sortByTime g._storage._items else g._storage._items)
    ∧ ((absDB norm g).step (.all sorted)).2
        = .points (if sorted then State.sortByTime g._storage._items else g._storage._items) :=
  all_ok norm g sorted

/-- non-vacuity: the getters of the index the translated `build` produces for two concrete points -/
example : ∃ g', IndexImpl.build (IndexImpl.__init__ true)
      [{ time := 5, meas := "a", tags := [("k", some "v")], fields := [("f", some (.fin 1))] },
       { time := 3, meas := "b", tags := [("k", some "w")], fields := [("f", none)] }] = .ok g'
    ∧ IndexImpl.get_tag_keys g' (some "a") = .ok ((Mirror.abs g').getTagKeys (some "a"))
    ∧ IndexImpl.get_timestamps g' none = .ok ((Mirror.abs g').getTimestamps none) := by
  obtain ⟨g', h1, h2, _⟩ := build_ok (IndexImpl.__init__ true)
      [{ time := 5, meas := "a", tags := [("k", some "v")], fields := [("f", some (.fin 1))] },
       { time := 3, meas := "b", tags := [("k", some "w")], fields := [("f", none)] }]
  have hne := build_ne _ _ g' h1
  exact ⟨g', h1, (translated_getters g' h2 hne (some "a") (by decide)).2.2.2.1,
         (translated_getters g' h2 hne none (by decide)).2.2.2.2.2⟩

end TinyFlux.Props.C07
