import TinyFlux.Model.IO
import TinyFlux.Lemmas.IOLemmas
/-!
# C16 — insert is append-only and its I/O cost does not depend on database size (partial)

`appendSteps flush rows` is the list of I/O calls `insert`/`insert_multiple` makes on the primary
handle (validated against recorded traces of the real code for database sizes 0 … 5000). It is a
function of the inserted rows only — not of the contents, the index or the handle position — and
contains no read. *Partial*: cost is counted in Python-level I/O calls, not in syscalls or time.
-/
namespace TinyFlux.Props.C16
open TinyFlux.Model.IO
variable {R : Type}

/-- five calls per inserted point (two without `flush_on_insert`), whatever is already stored -/
theorem insert_steps_count (rows : List R) :
    (appendSteps true rows).length = 5 * rows.length ∧ (appendSteps false rows).length = 2 * rows.length := by
  constructor <;> induction rows with
  | nil => rfl
  | cons r t ih => rw [appendSteps_cons, List.length_append, ih]; simp; omega

/-- no existing data is read, nothing is rewritten: the only mutating calls are writes of the new rows -/
theorem insert_reads_nothing (flush : Bool) (rows : List R) :
    ∀ s ∈ appendSteps flush rows, s.isRead = false ∧ (match s with | .pSeek0 | .replace | .tCreate => False | _ => True) := by
  intro s hs
  simp only [appendSteps, List.mem_flatMap] at hs
  obtain ⟨r, _, hs⟩ := hs
  cases flush <;> simp at hs
  · rcases hs with h | h <;> subst h <;> simp [Step.isRead]
  · rcases hs with h | h | h | h | h <;> subst h <;> simp [Step.isRead]

/-- the file afterwards is the previous content followed by the new rows — wherever a previous
    (early-terminating) read left the handle -/
theorem insert_is_append (fs : FS R) (hq : Quiet fs) (rows : List R) :
    (run fs (appendSteps true rows)).primary = fs.primary ++ rows ∧
    afterClose (run fs (appendSteps false rows)) = fs.primary ++ rows ∧
    Quiet (run fs (appendSteps true rows)) := by
  obtain ⟨h1, h2, h3, h4⟩ := append_flush_full fs hq.noPend rows
  refine ⟨h1, ?_, ⟨h2, h3.trans hq.noTemp, h4.trans hq.noPendT⟩⟩
  rw [append_noflush_full]
  simp [afterClose, hq.noPend]

/-- at every intermediate point the previous content is a prefix of the file -/
theorem insert_never_touches_old_rows (fs : FS R) (hq : Quiet fs) (flush : Bool) (rows : List R) (k : Nat) :
    fs.primary <+: (run fs ((appendSteps flush rows).take k)).primary := by
  have _ := hq  -- holds from any state: these steps only ever extend the file
  exact append_prefix_isPrefix fs flush rows k

end TinyFlux.Props.C16
