import TinyFlux.Model.Codec
import TinyFlux.Lemmas.CodecLemmas
/-!
# C05 — every valid Point survives serialisation to CSV and back unchanged

Row level. `serialize` / `deserialize` model `point.py` character by character over the constants and
sniff positions regenerated from the source; `float`/`datetime` text conversions are parameters with
explicit laws. `Codable` names exactly what the on-disk format cannot carry; each excluded case has a
counter-example theorem below (they are known findings, pinned by the test-suite's format assertions).
The file level composes this with the csv-module / text-codec assumptions of the trusted base.
-/
namespace TinyFlux.Props.C05
open TinyFlux.Spec TinyFlux.Model.Codec TinyFlux.Generated TinyFlux.Lemmas.CodecLemmas

/-- the characters the decoder looks at discriminate the four prefixes, for every key (also the empty
    key, keys starting with `_`, `t`, `f`, and the reserved words) -/
theorem sniffing_sound (c : Bool) (k : Str) :
    sniffTag (tagPre c ++ k) = some (some (tagPre c).length) ∧
    sniffTag (fieldPre c ++ k) = some none ∧
    sniffField (fieldPre c ++ k) = some (fieldPre c).length := by
  exact ⟨sniff_tag_key c k, sniff_field_key_not_tag c k, sniff_field_key c k⟩

/-- **C05 (partial: `Codable` points)**: a row written in either prefix style decodes to the point it was
    written from — same instant, measurement, tags (still tags) and fields (still fields) -/
theorem row_roundtrip_partial (fc : FieldCodec) (tc : TimeCodec) (hs : SentinelNotNumber fc) (compact : Bool)
    (p : Point) (hc : Codable fc tc p) :
    deserialize fc tc (serialize fc tc compact p) = some p := by
  exact deserialize_serialize fc tc hs compact p hc

/-- distinct codable points never decode to the same point: their rows differ (whatever the styles) -/
theorem injective_partial (fc : FieldCodec) (tc : TimeCodec) (hs : SentinelNotNumber fc) (c c' : Bool)
    (p q : Point) (hp : Codable fc tc p) (hq : Codable fc tc q)
    (h : serialize fc tc c p = serialize fc tc c' q) : p = q := by
  have h1 := deserialize_serialize fc tc hs c p hp
  have h2 := deserialize_serialize fc tc hs c' q hq
  rw [h, h2] at h1
  exact (Option.some.inj h1).symm

/-- tags stay tags and fields stay fields: the decoded tag set is the written tag set, the decoded field
    set the written field set (a corollary kept separate because it is what the property says) -/
theorem tags_stay_tags_fields_stay_fields (fc : FieldCodec) (tc : TimeCodec) (hs : SentinelNotNumber fc)
    (compact : Bool) (p : Point) (hc : Codable fc tc p) :
    ∃ q, deserialize fc tc (serialize fc tc compact p) = some q ∧ q.tags = p.tags ∧ q.fields = p.fields := by
  exact ⟨p, deserialize_serialize fc tc hs compact p hc, rfl, rfl⟩

/-! ## what the format cannot carry: the full statement is false of the code -/

/-- a tag whose value is the sentinel text comes back as `None` -/
theorem counterexample_none_sentinel (fc : FieldCodec) (tc : TimeCodec) (h0 : tc.fromIso (tc.iso 0) = some 0) :
    deserialize fc tc (serialize fc tc false { time := 0, meas := "m", tags := [("a", some "_none")], fields := [] })
      = some { time := 0, meas := "m", tags := [("a", none)], fields := [] } := by
  have hn : noneS = ['_', 'n', 'o', 'n', 'e'] := noneS_eq
  simp [serialize, deserialize, parseTags, parseFields, h0, toDict, dictSet, hn,
    sniffTag, tagPre, tagSniff1, defaultTagPrefix]

/-- the empty measurement name is written as is and comes back unchanged (it used to be replaced by the
    sentinel; repaired, see known_findings.json) -/
theorem empty_measurement_roundtrips (fc : FieldCodec) (tc : TimeCodec) (h0 : tc.fromIso (tc.iso 0) = some 0) :
    deserialize fc tc (serialize fc tc false { time := 0, meas := "", tags := [], fields := [] })
      = some { time := 0, meas := "", tags := [], fields := [] } := by
  simp [serialize, deserialize, measEmptyAsSentinel, parseTags, parseFields, toDict, h0]

/-- a field value that `float` does not represent exactly comes back as the rounded value: for any
    codec whose `repr` goes through a rounding `fl`, the decoded value is `fl n`, not `n` -/
theorem counterexample_unrepresentable (fc : FieldCodec) (tc : TimeCodec) (h0 : tc.fromIso (tc.iso 0) = some 0)
    (n n' : Num) (hne : n ≠ n') (hparse : fc.parse (fc.repr n) = some n')
    (hnd : fc.repr n ≠ [] ∧ isDigits (fc.repr n) = false ∧ ¬ (∃ t, fc.repr n = '-' :: t ∧ isDigits t = true)) :
    deserialize fc tc (serialize fc tc false { time := 0, meas := "m", tags := [], fields := [("f", some n)] })
      = some { time := 0, meas := "m", tags := [], fields := [("f", some n')] } := by
  have _ := hne  -- (the hypothesis only says the decoded point differs from the written one)
  obtain ⟨h1, h2, h3⟩ := hnd
  have hd := decodeField_of fc _ _ h1 h2 h3 hparse
  have hk := sniff_field_key false ['f']
  have hk' := sniff_field_key_not_tag false ['f']
  simp [serialize, deserialize, parseTags, parseFields, h0, toDict, dictSet, hd, hk, hk']

end TinyFlux.Props.C05
