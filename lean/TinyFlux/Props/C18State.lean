import TinyFlux.Generated.Footprint
import TinyFlux.Model.Footprint
import TinyFlux.Generated.CallGraph
import TinyFlux.Model.CallGraph

/-! # C18: the state the code keeps is the state the Model has (utils)

Over `Generated/Footprint.lean` (regenerated from the source on every run). A cache, a memo table or a flag added
to one of these classes or modules is state no theorem of this property covers: these stop checking. -/
namespace TinyFlux.Props.C18
open TinyFlux

/-- no module-level variable, caching decorator, `global`/`nonlocal` or mutable default argument beyond the
    modelled ones; no class the Model does not know -/
theorem no_hidden_state :
    Generated.moduleState.lookup "utils" = Model.Footprint.modules.lookup "utils" ∧
    Generated.classState.map (·.1) = Model.Footprint.classNames := by decide

/-- every function of these classes / modules calls, catches and raises exactly what it did when the Model was
    written against it and validated (`Model/CallGraph.lean`); and there is no table the Model does not know -/
theorem code_uses_the_modelled_primitives :
    Generated.calls_utils_toplevel = Model.CallGraph.calls_utils_toplevel ∧
    Generated.calls_utils_FrozenDict = Model.CallGraph.calls_utils_FrozenDict ∧
    Generated.callGraphTables = Model.CallGraph.callGraphTables := ⟨rfl, rfl, rfl⟩

end TinyFlux.Props.C18
