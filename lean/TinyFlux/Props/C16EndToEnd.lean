import TinyFlux.Lemmas.IOOps
/-! # C16, end to end (database model ⋈ I/O model) -/
namespace TinyFlux.Props.C16
open TinyFlux.Model TinyFlux.Model.IO TinyFlux.Spec

/-- the I/O calls of an insert are the same in any two states with the same configuration — whatever is
    stored, whatever the index holds, valid or not —, five (two) per stored point, none a read; and the contents
    afterwards are the old contents followed by exactly the rows those calls write -/
theorem insert_cost_independent_of_database (s₁ s₂ : State) (h : s₁.cfg = s₂.cfg) (flush : Bool)
    (pts : List (Option Point)) (m : Option String) :
    opSteps s₁ flush (.insert pts m) = opSteps s₂ flush (.insert pts m) ∧
    (opSteps s₁ flush (.insert pts m)).length = (if flush then 5 else 2) * (insertedRows s₁.cfg m pts).length ∧
    (∀ st ∈ opSteps s₁ flush (.insert pts m), st.isRead = false) ∧
    (s₁.step (.insert pts m)).1.storage = s₁.storage ++ insertedRows s₁.cfg m pts :=
  ⟨(insert_steps_independent_of_state s₁ s₂ h flush pts m).1, (insert_steps_independent_of_state s₁ s₂ h flush pts m).2.1,
   (insert_steps_independent_of_state s₁ s₂ h flush pts m).2.2, insertedRows_spec s₁ pts m⟩

end TinyFlux.Props.C16
