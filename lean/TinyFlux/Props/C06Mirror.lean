import TinyFlux.Mirror.Ops
import TinyFlux.Mirror.DbReindex
/-!
# C06 over the translated source: index maintenance as `tinyflux/index.py` has it, not only as the Model has it

`Generated/IndexImpl.lean` is `Index` translated method by method from the working tree on every run
(tools/py2lean, class mode). These theorems are about those generated definitions: built from storage, after an
in-order insert, and after a removal with renumbering, the translated index — read through `Mirror.abs` — is
exactly the index of the stored points (`Represents`), it is dict-shaped (`GWF`), none of the methods raises, and the
validity flag is what the property says. A change to a statement, a condition, an operand or the order of statements
in these methods changes the generated definitions under the proofs.
-/
namespace TinyFlux.Props.C06
open TinyFlux.Spec TinyFlux.Model TinyFlux.Mirror TinyFlux.Generated

/-- `Index.build(points)` as translated: never raises, leaves a valid index that is exactly the index of `points` -/
theorem translated_build_represents (g : GSelf) (l : List Point) (hwf : ∀ p ∈ l, WFPoint p) :
    ∃ g', IndexImpl.build g l = .ok g' ∧ GWF g' ∧ g'._valid = true ∧ Represents (Mirror.abs g') l :=
  gen_build_represents g l hwf

/-- `Index.insert([p])` as translated, for a point not older than the newest indexed one -/
theorem translated_insert_represents (g : GSelf) (l : List Point) (p : Point) (hg : GWF g)
    (h : Represents (Mirror.abs g) l) (hp : WFPoint p) (hord : ∀ t, g._timestamps.getLast? = some t → t ≤ p.time) :
    ∃ g', IndexImpl.insert g [p] = .ok g' ∧ GWF g' ∧ g'._valid = g._valid ∧ Represents (Mirror.abs g') (l ++ [p]) :=
  gen_insert_represents g l p hg h hp hord

/-- `Index.remove(removed)` then `Index.update(renumbering)` as translated: the index of the kept points -/
theorem translated_remove_update_represents (g : GSelf) (l : List Point) (hg : GWF g) (h : Represents (Mirror.abs g) l)
    (keep : Nat → Bool) (removed : List Nat) (updated : AL Nat Nat)
    (hr : ∀ i, i < l.length → removed.contains i = !keep i)
    (hf : ∀ i, i < l.length → keep i = true → (updated.lookup i).getD i = cnt keep 0 i)
    (hlen : removed.length + (keepIdx keep l 0).length = l.length) :
    ∃ g1 g2, IndexImpl.remove g removed = .ok g1 ∧ IndexImpl.update g1 updated = .ok g2 ∧ GWF g2
      ∧ g2._valid = g._valid ∧ Represents (Mirror.abs g2) (keepIdx keep l 0) :=
  gen_remove_update_represents g l hg h keep removed updated hr hf hlen

/-- `_reset` / `invalidate` as translated: the empty index, flagged valid / invalid -/
theorem translated_reset_invalidate (g : GSelf) :
    IndexImpl._reset g = .ok (IndexImpl.__init__ true) ∧ IndexImpl.invalidate g = .ok (IndexImpl.__init__ false)
      ∧ Represents (Mirror.abs (IndexImpl.__init__ true)) [] ∧ (IndexImpl.__init__ false)._valid = false :=
  ⟨reset_ok g, invalidate_ok g, by rw [abs_init]; exact Writes.represents_empty, rfl⟩

/-- the translated composite methods return what the Model's operations return on the `abs`-read state -/
theorem translated_methods_are_the_models (g : GSelf) (hg : GWF g) :
    (∀ pts, g._timestamps.length = g._storage_pos_sorted_by_ts.length →
        ∃ g', IndexImpl.insert g pts = .ok g' ∧ IdxEq (Mirror.abs g') (pts.foldl Index.insert (Mirror.abs g)))
    ∧ (∀ r, r.length ≤ g._num_items → ∃ g', IndexImpl.remove g r = .ok g' ∧ IdxEq (Mirror.abs g') ((Mirror.abs g).remove r))
    ∧ (∀ u, ∃ g', IndexImpl.update g u = .ok g' ∧ IdxEq (Mirror.abs g') ((Mirror.abs g).update u))
    ∧ (∀ pts, ∃ g', IndexImpl.build g pts = .ok g' ∧ IdxEq (Mirror.abs g') (Index.build pts)) := by
  refine ⟨fun pts hl => ?_, fun r hr => ?_, fun u => ?_, fun pts => ?_⟩
  · obtain ⟨g', h1, _, h3⟩ := insert_ok g pts hg hl; exact ⟨g', h1, h3⟩
  · obtain ⟨g', h1, _, h3⟩ := remove_ok g r hg hr; exact ⟨g', h1, h3⟩
  · obtain ⟨g', h1, _, h3⟩ := update_ok g u hg; exact ⟨g', h1, h3⟩
  · obtain ⟨g', h1, _, h3⟩ := build_ok g pts; exact ⟨g', h1, h3⟩

/-- `TinyFlux.reindex` of database.py as translated — what the `read_op` decorator calls when the index is invalid: it never
    raises, leaves a valid index alone, and rebuilds an invalid one with the translated `Index.build` into a valid index that
    is the Model's `Index.build` of the stored rows (up to the order of flattened tag keys): "any read leaves it valid" -/
theorem translated_reindex (norm : Point → Point) (g : DSelf) :
    ∃ g', DatabaseImpl.reindex g = .ok g' ∧ g'._storage = g._storage ∧ g'._auto_index = g._auto_index
      ∧ (g._index._valid = true → g' = g)
      ∧ (g._index._valid = false → GWF g'._index ∧ g'._index._valid = true
            ∧ IdxEq (Mirror.abs g'._index) (Index.build g._storage._items)) :=
  reindex_ok norm g

/-- … which is the Model's `.reindex` step; `remove_all` is the Model's `.removeAll` -/
theorem translated_reindex_is_the_models (norm : Point → Point) (g : DSelf) :
    (∃ g', DatabaseImpl.reindex g = .ok g' ∧ StateEq (absDB norm g') ((absDB norm g).step .reindex).1)
    ∧ (∃ g', DatabaseImpl.remove_all g = .ok g' ∧ absDB norm g' = ((absDB norm g).step .removeAll).1) :=
  ⟨reindex_is_the_models norm g, remove_all_ok norm g⟩

/-! ## non-vacuity: the hypotheses are met by concrete points, and by the state the translated `build` itself produces -/

def mirrorPA : Point := { time := 5, meas := "a", tags := [("k", some "v"), ("j", none)], fields := [("f", some (.fin 1))] }
def mirrorPB : Point := { time := 3, meas := "b", tags := [("k", some "w")], fields := [("f", none)] }

theorem mirror_witness_wf : ∀ p ∈ [mirrorPA, mirrorPB], WFPoint p := by
  intro p hp
  simp only [List.mem_cons, List.mem_nil_iff, or_false] at hp
  rcases hp with rfl | rfl <;> exact ⟨by decide, by decide⟩

example : ∃ g', IndexImpl.build (IndexImpl.__init__ true) [mirrorPA, mirrorPB] = .ok g' ∧ GWF g' ∧ g'._valid = true
    ∧ Represents (Mirror.abs g') [mirrorPA, mirrorPB] :=
  translated_build_represents _ _ mirror_witness_wf

/-- … and from that state, a removal that removes nothing with the identity renumbering meets the hypotheses of
    `translated_remove_update_represents` -/
example : ∃ g' g1 g2, IndexImpl.build (IndexImpl.__init__ true) [mirrorPA, mirrorPB] = .ok g' ∧ IndexImpl.remove g' [] = .ok g1
    ∧ IndexImpl.update g1 [] = .ok g2 ∧ Represents (Mirror.abs g2) [mirrorPA, mirrorPB] := by
  obtain ⟨g', h1, h2, _, h4⟩ := translated_build_represents (IndexImpl.__init__ true) [mirrorPA, mirrorPB] mirror_witness_wf
  obtain ⟨g1, g2, r1, r2, _, _, r5⟩ := translated_remove_update_represents g' [mirrorPA, mirrorPB] h2 h4 (fun _ => true) [] []
    (by intro i _; rfl) (by intro i _ _; simp [cnt, List.filter_eq_self.mpr]) (by decide)
  exact ⟨g', g1, g2, h1, r1, r2, r5⟩

end TinyFlux.Props.C06
