import TinyFlux.Props.C07
import TinyFlux.Model.Codec
/-!
# C07 — non-vacuity witnesses

The hypotheses of the theorems of `Props/C07.lean` (`Inv s`, `m ≠ some ""`, `name ≠ ""`, `isRead op`,
`MeasOK op`) are jointly satisfiable by concrete, non-trivial states, and the conclusions then say something
concrete: every getter theorem is instantiated at a three-point database under a CSV configuration
(automatic index, the real row round trip as `norm`: answers come from the index) and a memory
configuration (no automatic index: answers come from scanning), with all hypotheses discharged, and the
returned values are computed — by `decide +kernel` where the answer involves no sorting, through the
theorem and `simp` where it does (`List.mergeSort` is defined by well-founded recursion, which the kernel
does not unfold).
-/
namespace TinyFlux.Props.C07
open TinyFlux.Spec TinyFlux.Model

/-! ## the two configurations

`memCfg`: `MemoryStorage` (`norm = id`), here with automatic indexing off, so every answer below comes from
the scan path over an invalid index. `csvCfg`: `CSVStorage` with automatic indexing on; `norm` is the actual
row round trip `deserialize ∘ serialize` of `Model/Codec.lean` over a concrete codec pair (`wfc`, `wtc`:
the `float`/`datetime` text conversions are parameters of the model; any lawful pair will do, these two
are small enough for the kernel to run). A row that does not decode would come back as the junk point. -/

/-- text of a rational: sign letter, numerator in unary, `/`, denominator in unary (never a digit string) -/
def encQ (q : Rat) : Codec.Str :=
  (if q.num < 0 then 'm' else 'q') :: (List.replicate q.num.natAbs 'i' ++ '/' :: List.replicate q.den 'i')

def wfc : Codec.FieldCodec where
  repr
    | .ninf => ['n'] | .pinf => ['p'] | .fin q => encQ q
  parse
    | ['n'] => some .ninf
    | ['p'] => some .pinf
    | 'q' :: r => some (.fin (mkRat (r.takeWhile (· == 'i')).length ((r.dropWhile (· == 'i')).drop 1).length))
    | 'm' :: r => some (.fin (mkRat (-((r.takeWhile (· == 'i')).length : Int)) ((r.dropWhile (· == 'i')).drop 1).length))
    | _ => none

def wtc : Codec.TimeCodec where
  iso | .ofNat n => 'T' :: List.replicate n 'i' | .negSucc n => 'U' :: List.replicate n 'i'
  fromIso | 'T' :: r => some (Int.ofNat r.length) | 'U' :: r => some (Int.negSucc r.length) | _ => none

def csvNorm (p : Point) : Point :=
  match Codec.deserialize wfc wtc (Codec.serialize wfc wtc false p) with
  | some q => q
  | none => ⟨0, "", [], []⟩

def csvCfg : Cfg := { autoIndex := true, norm := csvNorm }
def memCfg : Cfg := { autoIndex := false, norm := id }

/-! ## three points in two measurements: a `None` tag value, a `None` field value, a non-integer field
value, and a tie in time (`p2`, `p3`) -/

def p1 : Point := ⟨10, "m1", [("a", some "x"), ("b", none)], [("f", some (.fin 2))]⟩
def p2 : Point := ⟨20, "m1", [("a", some "y")], [("f", some (.fin 7)), ("g", none)]⟩
def p3 : Point := ⟨20, "m2", [("a", some "x")], [("f", some (.fin (5 / 2)))]⟩

/-- the history that builds the state: an `insert_multiple`, then an `insert` -/
def ops0 : List Op := [.insert [some p1, some p2] none, .insert [some p3] none]

def sCsv : State := (runM (init csvCfg) ops0).1
def sMem : State := (runM (init memCfg) ops0).1

/-! ## the hypotheses hold: `Good`, `OpsOK`, `Inv` -/

/-- the three points survive the CSV round trip unchanged (the kernel runs the codec) -/
theorem witness_good_csv : Good csvCfg p1 ∧ Good csvCfg p2 ∧ Good csvCfg p3 :=
  ⟨⟨⟨by decide, by decide⟩, by decide +kernel⟩, ⟨⟨by decide, by decide⟩, by decide +kernel⟩,
   ⟨⟨by decide, by decide⟩, by decide +kernel⟩⟩

theorem witness_good_mem : Good memCfg p1 ∧ Good memCfg p2 ∧ Good memCfg p3 :=
  ⟨⟨⟨by decide, by decide⟩, rfl⟩, ⟨⟨by decide, by decide⟩, rfl⟩, ⟨⟨by decide, by decide⟩, rfl⟩⟩

/-- … and the round trip is not the identity: a tag value `"_none"` comes back as `None`, so not every
    point is `Good` for `csvCfg` -/
theorem witness_csv_norm_not_id : ¬ Good csvCfg ⟨10, "m1", [("a", some "_none")], []⟩ := by
  intro h
  exact absurd h.2 (by decide +kernel)

theorem witness_opsOK_csv : OpsOK csvCfg ops0 := by
  intro op hop
  simp only [ops0, List.mem_cons, List.not_mem_nil, or_false] at hop
  rcases hop with rfl | rfl
  · refine ⟨?_, by simp [MeasOK]⟩
    intro p hp
    simp only [List.mem_cons, Option.some.injEq, List.not_mem_nil, or_false] at hp
    rcases hp with rfl | rfl
    · exact witness_good_csv.1
    · exact witness_good_csv.2.1
  · refine ⟨?_, by simp [MeasOK]⟩
    intro p hp
    simp only [List.mem_cons, Option.some.injEq, List.not_mem_nil, or_false] at hp
    subst hp
    exact witness_good_csv.2.2

theorem witness_opsOK_mem : OpsOK memCfg ops0 := by
  intro op hop
  simp only [ops0, List.mem_cons, List.not_mem_nil, or_false] at hop
  rcases hop with rfl | rfl
  · refine ⟨?_, by simp [MeasOK]⟩
    intro p hp
    simp only [List.mem_cons, Option.some.injEq, List.not_mem_nil, or_false] at hp
    rcases hp with rfl | rfl
    · exact witness_good_mem.1
    · exact witness_good_mem.2.1
  · refine ⟨?_, by simp [MeasOK]⟩
    intro p hp
    simp only [List.mem_cons, Option.some.injEq, List.not_mem_nil, or_false] at hp
    subst hp
    exact witness_good_mem.2.2

/-- `Inv` of both states, through the reachability theorem -/
theorem witness_inv_csv : Inv sCsv := (reachable csvCfg ops0 witness_opsOK_csv).1
theorem witness_inv_mem : Inv sMem := (reachable memCfg ops0 witness_opsOK_mem).1

/-- the states are not trivial: three stored points; the CSV state has a valid, populated index (so
    `Inv.rep` says something), the memory state an invalidated one (so answers come from scanning) -/
theorem witness_state_csv :
    sCsv.storage = [p1, p2, p3] ∧ sCsv.storage.length = 3 ∧ sCsv.index.valid = true ∧
    sCsv.index.numItems = 3 ∧ sCsv.index.ts = [10, 20, 20] ∧ sCsv.index.pos = [0, 1, 2] ∧
    sCsv.cfg.autoIndex = true := by decide +kernel
theorem witness_state_mem :
    sMem.storage = [p1, p2, p3] ∧ sMem.storage.length = 3 ∧ sMem.index.valid = false ∧
    sMem.cfg.autoIndex = false := by decide +kernel
theorem witness_rep_csv : Represents sCsv.index sCsv.storage := witness_inv_csv.rep witness_state_csv.2.2.1

/-- no measurement filter used below is the empty string -/
theorem mOK (s : String) (h : s ≠ "" := by decide) : (some s : Option String) ≠ some "" := by
  intro e; exact h (Option.some.inj e)
theorem noneOK : (none : Option String) ≠ some "" := by simp

/-! ## C07: the main theorems at these states -/

/-! ### getters whose answer is not sorted: instantiated, and evaluated on the model directly -/
example : (sCsv.step (.getFieldValues "f" (some "m1"))).2 = .nums (fieldValues sCsv.storage "f" (some "m1")) :=
  fieldValues_refines sCsv witness_inv_csv "f" (some "m1") (mOK "m1")
example : (sMem.step (.getFieldValues "g" none)).2 = .nums (fieldValues sMem.storage "g" none) :=
  fieldValues_refines sMem witness_inv_mem "g" none noneOK
example : (sCsv.step .len).2 = .nat sCsv.storage.length := len_refines sCsv witness_inv_csv
example : (sMem.step .len).2 = .nat sMem.storage.length := len_refines sMem witness_inv_mem
example : (sCsv.step .iter).2 = .points sCsv.storage := iter_refines sCsv witness_inv_csv
example : (sMem.step (.all false)).2 = .points (Spec.all sMem.storage false) := all_refines sMem witness_inv_mem false
example : (sCsv.step (.mlen "m1")).2 = .nat (sCsv.storage.filter (fun p => p.meas == "m1")).length :=
  measurement_len_refines sCsv witness_inv_csv "m1" (by decide)
example : (sMem.step (.mlen "m2")).2 = .nat (sMem.storage.filter (fun p => p.meas == "m2")).length :=
  measurement_len_refines sMem witness_inv_mem "m2" (by decide)
example :
    (sCsv.step (.miter "m1")).2 = .points (sCsv.storage.filter (fun p => p.meas == "m1")) ∧
    (sCsv.step (.mall "m1" true)).2 = .points (Spec.all (sCsv.storage.filter (fun p => p.meas == "m1")) true) :=
  measurement_iter_all_refines sCsv witness_inv_csv "m1" true (by decide)
example : (sMem.step (.getTimestamps (some "m1"))).2 = .times (timestamps sMem.storage (some "m1")) :=
  timestamps_refines sMem witness_inv_mem (some "m1") (mOK "m1")
theorem witness_unsorted_getters_value :
    (sCsv.step (.getFieldValues "f" (some "m1"))).2 = .nums [some (.fin 2), some (.fin 7)] ∧
    (sCsv.step (.getFieldValues "f" none)).2 = .nums [some (.fin 2), some (.fin 7), some (.fin (5 / 2))] ∧
    (sMem.step (.getFieldValues "g" none)).2 = .nums [none] ∧
    (sCsv.step (.getFieldValues "g" (some "m2"))).2 = .nums [] ∧
    (sCsv.step .len).2 = .nat 3 ∧ (sMem.step .len).2 = .nat 3 ∧
    (sCsv.step .iter).2 = .points [p1, p2, p3] ∧ (sMem.step (.all false)).2 = .points [p1, p2, p3] ∧
    (sCsv.step (.mlen "m1")).2 = .nat 2 ∧ (sMem.step (.mlen "m2")).2 = .nat 1 ∧ (sCsv.step (.mlen "zz")).2 = .nat 0 ∧
    (sCsv.step (.miter "m1")).2 = .points [p1, p2] ∧ (sMem.step (.mall "m2" false)).2 = .points [p3] ∧
    (sMem.step (.getTimestamps (some "m1"))).2 = .times [10, 20] ∧
    (sMem.step (.getTimestamps none)).2 = .times [10, 20, 20] := by decide +kernel

/-! ### getters whose answer is sorted: instantiated, and evaluated through the theorem -/
theorem sort2 (a b : String) (h : a ≤ b) : sortStr [a, b] = [a, b] := by
  simp [sortStr, List.mergeSort, List.MergeSort.Internal.splitInTwo, h]

example : (sCsv.step .getMeasurements).2 = .strs (measurements sCsv.storage) :=
  measurements_refines sCsv witness_inv_csv
example : (sMem.step .getMeasurements).2 = .strs (measurements sMem.storage) :=
  measurements_refines sMem witness_inv_mem
theorem witness_measurements_value :
    (sCsv.step .getMeasurements).2 = .strs ["m1", "m2"] ∧ (sMem.step .getMeasurements).2 = .strs ["m1", "m2"] := by
  rw [measurements_refines sCsv witness_inv_csv, measurements_refines sMem witness_inv_mem]
  have h1 : (sCsv.storage.map (·.meas)).eraseDups = ["m1", "m2"] := by decide +kernel
  have h2 : (sMem.storage.map (·.meas)).eraseDups = ["m1", "m2"] := by decide +kernel
  simp only [measurements, h1, h2, sort2 "m1" "m2" (by decide), and_self]

example : (sCsv.step (.getTagKeys none)).2 = .strs (tagKeys sCsv.storage none) :=
  tagKeys_refines sCsv witness_inv_csv none noneOK
example : (sMem.step (.getTagKeys (some "m2"))).2 = .strs (tagKeys sMem.storage (some "m2")) :=
  tagKeys_refines sMem witness_inv_mem (some "m2") (mOK "m2")
example : (sCsv.step (.getFieldKeys (some "m1"))).2 = .strs (fieldKeys sCsv.storage (some "m1")) :=
  fieldKeys_refines sCsv witness_inv_csv (some "m1") (mOK "m1")
example : (sMem.step (.getFieldKeys none)).2 = .strs (fieldKeys sMem.storage none) :=
  fieldKeys_refines sMem witness_inv_mem none noneOK
theorem witness_keys_value :
    (sCsv.step (.getTagKeys none)).2 = .strs ["a", "b"] ∧
    (sCsv.step (.getFieldKeys (some "m1"))).2 = .strs ["f", "g"] ∧
    (sMem.step (.getFieldKeys none)).2 = .strs ["f", "g"] := by
  rw [tagKeys_refines sCsv witness_inv_csv none noneOK,
    fieldKeys_refines sCsv witness_inv_csv (some "m1") (mOK "m1"), fieldKeys_refines sMem witness_inv_mem none noneOK]
  have h1 : ((restrict sCsv.storage none).flatMap (fun p => p.tags.map (·.1))).eraseDups = ["a", "b"] := by
    decide +kernel
  have h2 : ((restrict sCsv.storage (some "m1")).flatMap (fun p => p.fields.map (·.1))).eraseDups = ["f", "g"] := by
    decide +kernel
  have h3 : ((restrict sMem.storage none).flatMap (fun p => p.fields.map (·.1))).eraseDups = ["f", "g"] := by
    decide +kernel
  simp only [tagKeys, fieldKeys, h1, h2, h3, sort2 "a" "b" (by decide), sort2 "f" "g" (by decide), and_self]

example : (sCsv.step (.getTimestamps none)).2 = .times (timestamps sCsv.storage none) :=
  timestamps_refines sCsv witness_inv_csv none noneOK
/-- (model side: the index's time array sorted back into storage order) -/
theorem witness_timestamps_value :
    (sCsv.step (.getTimestamps none)).2 = .times [10, 20, 20] ∧
    (sCsv.step (.getTimestamps (some "m2"))).2 = .times [20] := by
  rw [timestamps_refines sCsv witness_inv_csv none noneOK, timestamps_refines sCsv witness_inv_csv (some "m2") (mOK "m2")]
  decide +kernel

example : (sCsv.step (.all true)).2 = .points (Spec.all sCsv.storage true) := all_refines sCsv witness_inv_csv true
/-- stable: the tie `p2`, `p3` stays in insertion order -/
theorem witness_all_sorted_value : (sCsv.step (.all true)).2 = .points [p1, p2, p3] := by
  rw [all_refines sCsv witness_inv_csv true, witness_state_csv.1]
  simp [Spec.all, byTime, List.mergeSort, List.MergeSort.Internal.splitInTwo, p1, p2, p3]

example :
    canon (sCsv.step (.getTagValues ["a"] (some "m1"))).2 = canon (.tagVals (tagValues sCsv.storage ["a"] (some "m1"))) :=
  tagValues_refines sCsv witness_inv_csv ["a"] (some "m1") (mOK "m1")
example : canon (sMem.step (.getTagValues [] none)).2 = canon (.tagVals (tagValues sMem.storage [] none)) :=
  tagValues_refines sMem witness_inv_mem [] none noneOK
theorem witness_tagValues_value :
    canon (sCsv.step (.getTagValues ["a"] (some "m1"))).2 = .tagVals [("a", [some "x", some "y"])] := by
  rw [tagValues_refines sCsv witness_inv_csv ["a"] (some "m1") (mOK "m1")]
  have h : ((restrict sCsv.storage (some "m1")).filterMap (fun p => p.tags.lookup "a")).eraseDups = [some "x", some "y"] := by
    decide +kernel
  have hk : (["a"] : List String).eraseDups = ["a"] := by decide +kernel
  simp [tagValues, tagValuesOf, h, hk, sortStr, canon, List.mergeSort, List.MergeSort.Internal.splitInTwo, optStrLe]

theorem witness_tagValues_all_value :
    canon (sMem.step (.getTagValues [] none)).2 = .tagVals [("a", [some "x", some "y"]), ("b", [none])] := by
  rw [tagValues_refines sMem witness_inv_mem [] none noneOK]
  have h1 : ((restrict sMem.storage none).flatMap (fun p => p.tags.map (·.1))).eraseDups = ["a", "b"] := by
    decide +kernel
  have ha : ((restrict sMem.storage none).filterMap (fun p => p.tags.lookup "a")).eraseDups = [some "x", some "y"] := by
    decide +kernel
  have hb : ((restrict sMem.storage none).filterMap (fun p => p.tags.lookup "b")).eraseDups = [none] := by
    decide +kernel
  simp [tagValues, tagValuesOf, tagKeys, h1, ha, hb, sort2 "a" "b" (by decide), canon, List.mergeSort,
    List.MergeSort.Internal.splitInTwo, optStrLe]

/-! ### `getters_leave_storage` -/
example : (sCsv.step (.getTagValues ["a"] (some "m1"))).1.storage = sCsv.storage :=
  getters_leave_storage sCsv witness_inv_csv (.getTagValues ["a"] (some "m1")) rfl (mOK "m1")
example : (sMem.step (.getTimestamps none)).1.storage = sMem.storage :=
  getters_leave_storage sMem witness_inv_mem (.getTimestamps none) rfl noneOK

/-! ### the Spec-level theorems -/
example : (measurements sCsv.storage).Pairwise (fun a b => a < b) ∧
    ∀ s, s ∈ measurements sCsv.storage ↔ ∃ p ∈ sCsv.storage, p.meas = s :=
  measurements_sorted_unique sCsv.storage
example : fieldValues sCsv.storage "f" (some "m1") =
    (sCsv.storage.filter (fun p => (some "m1" : Option String).all (· == p.meas))).filterMap (fun p => p.fields.lookup "f") :=
  fieldValues_insertion_order sCsv.storage "f" (some "m1")

end TinyFlux.Props.C07
