import TinyFlux.Generated.IndexTables
import TinyFlux.Lemmas.Refinement
import TinyFlux.Lemmas.PropsAux2
/-!
# C06 — a valid index is always equivalent to one rebuilt from storage

`Represents idx l` says the index is exactly the index of `l` (posting lists, parallel time arrays,
counts). `inv_reachable` shows every state reachable by any history — including operations that
raise — has a valid index only if it represents the current storage; `Index.build` also represents
it (L1), and every answer is a function of what is represented (L2), so the answers coincide.
-/
namespace TinyFlux.Props.C06
open TinyFlux.Spec TinyFlux.Model TinyFlux.Model.PropsAux2

/-- every reachable state: a valid index represents the current storage -/
theorem inv_reachable (cfg : Cfg) (ops : List Op) (hok : OpsOK cfg ops) :
    Inv (runM (init cfg) ops).1 := by
  exact runM_inv (init cfg) (init_inv cfg) ops hok

/-- … also across closing and reopening the database -/
theorem inv_reopen (s : State) (hs : Inv s) : Inv (reopen s) := by
  exact (reopen_inv s hs).1

/-- a freshly built index represents the storage it was built from -/
theorem build_represents (l : List Point) (hwf : ∀ p ∈ l, WFPoint p) : Represents (Index.build l) l := by
  exact represents_build l hwf

/-- any two indexes that represent the same storage give the same answer to every exact query
    (same set of positions, each once) … -/
theorem search_answers_eq (i j : Index) (l : List Point) (hi : Represents i l) (hj : Represents j l)
    (hwf : ∀ p ∈ l, WFPoint p) (q : Query) (hq : exact q = true) :
    ∃ r r', i.search q = .ok r ∧ j.search q = .ok r' ∧ r.Perm r' := by
  obtain ⟨r, h1, h2, h3⟩ := search_exact i l hi hwf q hq
  obtain ⟨r', h1', h2', h3'⟩ := search_exact j l hj hwf q hq
  refine ⟨r, r', h1, h1', ?_⟩
  rw [List.perm_ext_iff_of_nodup h2 h2']
  intro a
  rw [h3, h3']

/-- … and the same counts, keys, values, timestamps and lengths -/
theorem getter_answers_eq (i j : Index) (l : List Point) (hi : Represents i l) (hj : Represents j l)
    (hwf : ∀ p ∈ l, WFPoint p) (k : String) (m : Option String) :
    i.numItems = j.numItems ∧
    i.getMeasurements.Perm j.getMeasurements ∧
    (i.getTagKeys m).Perm (j.getTagKeys m) ∧
    (i.getFieldKeys m).Perm (j.getFieldKeys m) ∧
    i.getFieldValues k m = j.getFieldValues k m ∧
    i.getTimestamps m = j.getTimestamps m ∧
    (∀ name, (i.measItems name).length = (j.measItems name).length) := by
  refine ⟨by rw [hi.num, hj.num], ?_, ?_, ?_, ?_, ?_, ?_⟩
  · obtain ⟨a1, a2⟩ := getMeasurements_spec i l hi
    obtain ⟨b1, b2⟩ := getMeasurements_spec j l hj
    rw [List.perm_ext_iff_of_nodup a1 b1]
    intro a; rw [a2, b2]
  · obtain ⟨a1, a2⟩ := getTagKeys_spec i l hi hwf m
    obtain ⟨b1, b2⟩ := getTagKeys_spec j l hj hwf m
    rw [List.perm_ext_iff_of_nodup a1 b1]
    intro a; rw [a2, b2]
  · obtain ⟨a1, a2⟩ := getFieldKeys_spec i l hi hwf m
    obtain ⟨b1, b2⟩ := getFieldKeys_spec j l hj hwf m
    rw [List.perm_ext_iff_of_nodup a1 b1]
    intro a; rw [a2, b2]
  · rw [getFieldValues_spec i l hi hwf, getFieldValues_spec j l hj hwf]
  · rw [getTimestamps_spec i l hi, getTimestamps_spec j l hj]
  · intro name
    rw [(measItems_spec i l hi name).1, (measItems_spec j l hj name).1]

/-- in particular: whenever the index of a reachable state is valid, its answers are those of a rebuild -/
theorem answers_eq_rebuild (s : State) (hs : Inv s) (hv : s.index.valid = true) (q : Query) (hq : exact q = true) :
    ∃ r r', s.index.search q = .ok r ∧ (Index.build s.storage).search q = .ok r' ∧ r.Perm r' := by
  have hwf : ∀ p ∈ s.storage, WFPoint p := fun p hp => (hs.good p hp).1
  exact search_answers_eq _ _ s.storage (hs.rep hv) (build_represents _ hwf) hwf q hq

/-- with automatic indexing, inserting in non-decreasing time order keeps the index valid -/
theorem inorder_insert_keeps_valid (s : State) (hs : Inv s) (hv : s.index.valid = true) (ha : s.cfg.autoIndex = true)
    (p : Point) (m : Option String) (hok : OpOK s.cfg (.insert [some p] m))
    (hord : ∀ q ∈ s.storage, q.time ≤ p.time) :
    (s.step (.insert [some p] m)).1.index.valid = true := by
  exact insert_inorder_keeps_valid s hs hv ha p m hok hord

/-- an out-of-order insert only appends to storage and invalidates the index -/
theorem out_of_order_only_invalidates (s : State) (hs : Inv s) (hv : s.index.valid = true)
    (ha : s.cfg.autoIndex = true) (p : Point) (hok : OpOK s.cfg (.insert [some p] none))
    (hord : ∃ q ∈ s.storage, p.time < q.time) :
    (s.step (.insert [some p] none)).1.index.valid = false ∧
    (s.step (.insert [some p] none)).1.storage = s.storage ++ [p] := by
  exact insert_out_of_order_only_invalidates s hs hv ha p hok hord

/-- with automatic indexing, any read leaves the index valid (and never touches a valid one) -/
theorem read_leaves_valid (s : State) (hs : Inv s) (ha : s.cfg.autoIndex = true) :
    s.readOp.index.valid = true ∧ (s.index.valid = true → s.readOp = s) := by
  obtain ⟨_, _, _, h4, h5⟩ := readOp_spec s hs
  exact ⟨h4 ha, h5⟩

theorem read_op_keeps_valid_index (s : State) (hs : Inv s) (op : Op) (hr : isRead op = true) (hm : MeasOK op)
    (hv : s.index.valid = true) : (s.step op).1.index = s.index := by
  exact (step_read_refines s hs op hr hm).2.2.2.2 hv

/-- (T) over the attribute lists regenerated from `index.py`: `_reset` assigns every attribute that
    `__init__` creates (the position array included — the pinned commit forgot it), to the empty value,
    and sets `_valid`; `invalidate` is `_reset` followed by `_valid = False` -/
theorem reset_clears_every_attribute :
    (Generated.indexInitAttrs.map (·.1)).all (fun a => (Generated.indexResetAttrs.map (·.1)).contains a) = true ∧
    Generated.indexResetAttrs.all (fun av => av.2 == "0" || av.2 == "{}" || av.2 == "[]" || av == ("_valid", "True")) = true ∧
    Generated.indexInvalidateBody = ["self._reset()", "self._valid = False"] := by
  refine ⟨by decide, by decide, rfl⟩

end TinyFlux.Props.C06
