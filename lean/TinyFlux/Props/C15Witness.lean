import TinyFlux.Props.C15
import TinyFlux.Props.C15EndToEnd
/-!
# C15 — non-vacuity witness

The hypotheses of the three end-to-end theorems of C15 are jointly satisfied by a CSV database with auto-indexing
holding three points and the file that goes with it: read operations that do and do not touch the file, removes and
updates that report 0 or raise (some after streaming the whole file into a temp file), and rewrites whose temp
file exists half-way and is gone at the end.
(The concrete instance — configuration, points, state, file, operations, and the proofs of `Inv`, `FileOf`, `OpOK`,
`MeasOK` — is the same as in `C04Witness.lean`, repeated here so that the file stands alone.)
-/
namespace TinyFlux.Props.C15
open TinyFlux.Model TinyFlux.Model.IO TinyFlux.Spec

/-! ## the concrete instance -/

/-- CSV storage (the model's `norm` for CSV, as in `Driver/ModelMain.lean`), auto-indexing on -/
def witness_cfg : Cfg := { autoIndex := true, norm := id }

def witness_p1 : Point :=
  { time := 1000000, meas := "cpu", tags := [("host", some "a")], fields := [("load", some (.fin 1))] }
def witness_p2 : Point :=
  { time := 2000000, meas := "cpu", tags := [("host", some "b")], fields := [("load", some (.fin (5/2)))] }
def witness_p3 : Point :=
  { time := 3000000, meas := "mem", tags := [("host", some "a"), ("dc", none)], fields := [("free", none)] }
def witness_p4 : Point :=
  { time := 4000000, meas := "cpu", tags := [("host", some "c")], fields := [("load", some (.fin 3))] }
def witness_p5 : Point :=
  { time := 1500000, meas := "disk", tags := [], fields := [("used", some (.fin (-7)))] }
/-- `witness_p2` after the update below -/
def witness_p2' : Point :=
  { time := 2000000, meas := "cpu", tags := [("host", some "b")], fields := [("load", some (.fin 7))] }

/-- the history that builds the state: two `insert` calls -/
def witness_history : List Op := [.insert [some witness_p1, some witness_p2] none, .insert [some witness_p3] none]

/-- the state reached from the empty database -/
def witness_s : State := (runM (init witness_cfg) witness_history).1

/-- the file that goes with it: the three rows, nothing buffered, no temp file, handle open at the end -/
def witness_fs : FS Point := { primary := [witness_p1, witness_p2, witness_p3] }

/-- `db.remove(TagQuery().host == "b")`: removes the second of the three points -/
def witness_remove : Op := .remove (.tag "host" (.cmp .eq (.str "b"))) none
/-- `db.update(TagQuery().host == "b", fields={"load": 7})`: changes the second point -/
def witness_setLoad (v : Option Num) : Upd :=
  { time := none, meas := none, tags := none, fields := some (fun _ => .ok [("load", v)]),
    unsetTags := [], unsetFields := [] }
def witness_update : Op := .update false (.tag "host" (.cmp .eq (.str "b"))) (witness_setLoad (some (.fin 7))) none
/-- `db.insert_multiple([p4, p5])` (the second one out of time order) -/
def witness_insert : Op := .insert [some witness_p4, some witness_p5] none
/-- `db.count(MeasurementQuery() == "cpu")` -/
def witness_count : Op := .count (.meas (.cmp .eq (.str "cpu"))) none
/-- a remove that matches nothing -/
def witness_remove0 : Op := .remove (.tag "host" (.cmp .eq (.str "zzz"))) none

/-! ## the hypotheses hold -/

theorem witness_good_of_wf (p : Point) (h : WFPoint p) : Good witness_cfg p := ⟨h, rfl⟩

theorem witness_history_ok : OpsOK witness_cfg witness_history := by
  intro op hop
  simp only [witness_history, List.mem_cons, List.not_mem_nil, or_false] at hop
  rcases hop with rfl | rfl
  · refine ⟨?_, by simp [MeasOK]⟩
    intro p hp
    simp only [List.mem_cons, Option.some.injEq, List.not_mem_nil, or_false] at hp
    rcases hp with rfl | rfl <;> exact witness_good_of_wf _ ⟨by decide, by decide⟩
  · refine ⟨?_, by simp [MeasOK]⟩
    intro p hp
    simp only [List.mem_cons, Option.some.injEq, List.not_mem_nil, or_false] at hp
    subst hp
    exact witness_good_of_wf _ ⟨by decide, by decide⟩

/-- the state is reachable, hence satisfies the invariant -/
theorem witness_inv : Inv witness_s := (reachable witness_cfg witness_history witness_history_ok).1

theorem witness_storage : witness_s.storage = [witness_p1, witness_p2, witness_p3] := rfl
theorem witness_index_valid : witness_s.index.valid = true := rfl
theorem witness_index_nontrivial : witness_s.index.numItems = 3 ∧ witness_s.index.ts = [1000000, 2000000, 3000000] := ⟨rfl, rfl⟩

theorem witness_fileOf : FileOf witness_s witness_fs := ⟨rfl, ⟨rfl, rfl, rfl⟩⟩

/-! ### `OpOK` / `MeasOK` of the four operations -/

theorem witness_remove_ok : OpOK witness_s.cfg witness_remove ∧ MeasOK witness_remove :=
  ⟨trivial, by simp [MeasOK, witness_remove]⟩
theorem witness_count_ok : OpOK witness_s.cfg witness_count ∧ MeasOK witness_count :=
  ⟨trivial, by simp [MeasOK, witness_count]⟩

theorem witness_insert_ok : OpOK witness_s.cfg witness_insert ∧ MeasOK witness_insert := by
  refine ⟨?_, by simp [MeasOK, witness_insert]⟩
  intro p hp
  simp only [List.mem_cons, Option.some.injEq, List.not_mem_nil, or_false] at hp
  rcases hp with rfl | rfl <;> exact witness_good_of_wf _ ⟨by decide, by decide⟩

private theorem mem_keys_dictSet {V : Type} (d : List (String × V)) (k : String) (v : V) (k' : String)
    (h : k' ∈ (dictSet d k v).map (·.1)) : k' = k ∨ k' ∈ d.map (·.1) := by
  induction d with
  | nil => simpa [dictSet] using h
  | cons kv t ih =>
    obtain ⟨a, b⟩ := kv
    unfold dictSet at h
    by_cases hk : (a == k) = true
    · simp only [hk, if_true, List.map_cons, List.mem_cons] at h
      exact Or.inr (by simpa using h)
    · simp only [hk, Bool.false_eq_true, if_false, List.map_cons, List.mem_cons] at h
      rcases h with h | h
      · exact Or.inr (by simp [h])
      · rcases ih h with h | h
        · exact Or.inl h
        · exact Or.inr (by simp [h])

private theorem nodup_keys_dictSet {V : Type} (d : List (String × V)) (k : String) (v : V)
    (h : (d.map (·.1)).Nodup) : ((dictSet d k v).map (·.1)).Nodup := by
  induction d with
  | nil => simp [dictSet]
  | cons kv t ih =>
    obtain ⟨a, b⟩ := kv
    simp only [List.map_cons, List.nodup_cons] at h
    unfold dictSet
    by_cases hk : (a == k) = true
    · simpa [hk] using h
    · simp only [hk, Bool.false_eq_true, if_false, List.map_cons, List.nodup_cons]
      refine ⟨?_, ih h.2⟩
      intro hm
      rcases mem_keys_dictSet t k v a hm with e | e
      · exact hk (by simp [e])
      · exact h.1 e

private theorem nodup_keys_eraseKeys {V : Type} (d : List (String × V)) (ks : List String)
    (h : (d.map (·.1)).Nodup) : ((eraseKeys d ks).map (·.1)).Nodup :=
  List.Nodup.sublist (List.Sublist.map _ List.filter_sublist) h

/-- `fields={"load": v}` maps storable points to storable points: the quantified `OpOK` hypothesis, by hand -/
theorem witness_setLoad_ok (all : Bool) (q : Query) (v : Option Num) :
    OpOK witness_s.cfg (.update all q (witness_setLoad v) none) ∧ MeasOK (.update all q (witness_setLoad v) none) := by
  refine ⟨?_, by simp [MeasOK]⟩
  intro p p' hp hu
  have e : p' = { time := p.time, meas := p.meas, tags := eraseKeys p.tags [],
                  fields := eraseKeys (dictSet p.fields "load" v) [] } := by
    simpa [upd, witness_setLoad, applyOpt, bind, Except.bind, pure, Except.pure, dictUpdate] using hu.symm
  subst e
  exact witness_good_of_wf _ ⟨nodup_keys_eraseKeys _ _ hp.1.1,
    nodup_keys_eraseKeys _ _ (nodup_keys_dictSet _ _ _ hp.1.2)⟩

theorem witness_update_ok : OpOK witness_s.cfg witness_update ∧ MeasOK witness_update :=
  witness_setLoad_ok _ _ _

/-! ## reads -/

/-- a search that iterates the file -/
def witness_search : Op := .search (.tag "host" (.cmp .eq (.str "a"))) none false

/-- `every_read_operation_leaves_the_file_alone` at the count (answered from the index: no I/O) and at the search
    (a `seek(0)` and a read) -/
theorem witness_count_reads : ∀ st ∈ opSteps witness_s true witness_count, st.mutatesPrimary = false :=
  every_read_operation_leaves_the_file_alone witness_s true witness_count rfl

theorem witness_search_reads : ∀ st ∈ opSteps witness_s true witness_search, st.mutatesPrimary = false :=
  every_read_operation_leaves_the_file_alone witness_s true witness_search rfl

theorem witness_reads_concrete :
    (witness_s.step witness_count).2 = .nat 2 ∧ (opSteps witness_s true witness_count).length = 0 ∧
    (witness_s.step witness_search).2 = .points [witness_p1, witness_p3] ∧
    (opSteps witness_s true witness_search).length = 2 ∧
    (run witness_fs (opSteps witness_s true witness_search)).primary = [witness_p1, witness_p2, witness_p3] := by
  decide +kernel

/-- the conclusion is not true of every operation: the remove does make a mutating call -/
theorem witness_remove_mutates : ∃ st ∈ opSteps witness_s true witness_remove, st.mutatesPrimary = true := by
  have h : (opSteps witness_s true witness_remove).any Step.mutatesPrimary = true := by decide +kernel
  exact List.any_eq_true.mp h

/-! ## writes that change nothing -/

/-- a remove that matches nothing, found out by streaming the whole file (the query is not index-exact) -/
def witness_removeScan0 : Op :=
  .remove (.and (.not (.field "load" .exists)) (.tag "host" (.cmp .eq (.str "b")))) none
/-- an update that selects a point and leaves it as it is -/
def witness_updateSame : Op :=
  .update false (.tag "host" (.cmp .eq (.str "b"))) (witness_setLoad (some (.fin (5/2)))) none
/-- an update whose callable raises -/
def witness_updRaise : Upd :=
  { time := none, meas := none, tags := none, fields := some (fun _ => .error .user), unsetTags := [], unsetFields := [] }
def witness_updateRaise : Op := .update false (.tag "host" (.cmp .eq (.str "b"))) witness_updRaise none

theorem witness_updateRaise_ok : OpOK witness_s.cfg witness_updateRaise ∧ MeasOK witness_updateRaise := by
  refine ⟨?_, by simp [MeasOK, witness_updateRaise]⟩
  intro p p' _ hu
  simp [upd, witness_updRaise, applyOpt, bind, Except.bind, pure, Except.pure] at hu

/-- `every_noop_write_leaves_the_file_alone` at a remove by index that finds nothing (3 calls) … -/
theorem witness_remove0_noop : ∀ st ∈ opSteps witness_s true witness_remove0, st.mutatesPrimary = false :=
  every_noop_write_leaves_the_file_alone witness_s witness_inv true witness_remove0 (Or.inl ⟨_, _, rfl⟩)
    trivial (by simp [MeasOK, witness_remove0]) (Or.inl (by decide +kernel))

/-- … at a remove by scan that finds nothing (23 calls: all three rows are staged in the temp file, which is then
    discarded) … -/
theorem witness_removeScan0_noop : ∀ st ∈ opSteps witness_s true witness_removeScan0, st.mutatesPrimary = false :=
  every_noop_write_leaves_the_file_alone witness_s witness_inv true witness_removeScan0 (Or.inl ⟨_, _, rfl⟩)
    trivial (by simp [MeasOK, witness_removeScan0]) (Or.inl (by decide +kernel))

/-- … at an update that changes nothing (23 calls, reports 0) … -/
theorem witness_updateSame_noop : ∀ st ∈ opSteps witness_s true witness_updateSame, st.mutatesPrimary = false :=
  every_noop_write_leaves_the_file_alone witness_s witness_inv true witness_updateSame
    (Or.inr (Or.inr ⟨_, _, _, _, rfl⟩)) (witness_setLoad_ok _ _ _).1 (witness_setLoad_ok _ _ _).2
    (Or.inl (by decide +kernel))

/-- … at an update that raises part-way (the second disjunct of `hout`) … -/
theorem witness_updateRaise_noop : ∀ st ∈ opSteps witness_s true witness_updateRaise, st.mutatesPrimary = false :=
  every_noop_write_leaves_the_file_alone witness_s witness_inv true witness_updateRaise
    (Or.inr (Or.inr ⟨_, _, _, _, rfl⟩)) witness_updateRaise_ok.1 witness_updateRaise_ok.2
    (Or.inr ⟨.user, by decide +kernel⟩)

/-- … and at a drop_measurement of a measurement that does not exist -/
theorem witness_drop_noop : ∀ st ∈ opSteps witness_s true (.drop "net"), st.mutatesPrimary = false :=
  every_noop_write_leaves_the_file_alone witness_s witness_inv true (.drop "net") (Or.inr (Or.inl ⟨_, rfl⟩))
    trivial (by simp [MeasOK]) (Or.inl (by decide +kernel))

theorem witness_noop_concrete :
    (opSteps witness_s true witness_remove0).length = 3 ∧
    (opSteps witness_s true witness_removeScan0).length = 23 ∧
    (witness_s.step witness_removeScan0).2 = .nat 0 ∧
    (run witness_fs ((opSteps witness_s true witness_removeScan0).take 21)).temp = some [witness_p1, witness_p2, witness_p3] ∧
    (run witness_fs (opSteps witness_s true witness_removeScan0)).temp = none ∧
    (run witness_fs (opSteps witness_s true witness_removeScan0)).primary = [witness_p1, witness_p2, witness_p3] ∧
    (opSteps witness_s true witness_updateSame).length = 23 ∧
    (witness_s.step witness_updateSame).2 = .nat 0 ∧
    (witness_s.step witness_updateRaise).2 = .err .user ∧
    (opSteps witness_s true witness_updateRaise).length = 11 ∧
    (run witness_fs (opSteps witness_s true witness_updateRaise)).primary = [witness_p1, witness_p2, witness_p3] := by
  decide +kernel

/-- the hypothesis `hout` matters: it fails for the remove that removes a point -/
theorem witness_remove_is_not_noop :
    ¬ ((witness_s.step witness_remove).2 = .nat 0 ∨ ∃ e, (witness_s.step witness_remove).2 = .err e) := by
  have h : (witness_s.step witness_remove).2 = .nat 1 := by decide +kernel
  rw [h]
  simp

/-! ## temp files -/

/-- `every_operation_removes_its_temp_file` at the remove, the update, the insert and the count -/
theorem witness_remove_no_temp : (run witness_fs (opSteps witness_s true witness_remove)).temp = none :=
  every_operation_removes_its_temp_file witness_s witness_inv witness_remove witness_remove_ok.1 witness_remove_ok.2
    witness_fs witness_fileOf
theorem witness_update_no_temp : (run witness_fs (opSteps witness_s true witness_update)).temp = none :=
  every_operation_removes_its_temp_file witness_s witness_inv witness_update witness_update_ok.1 witness_update_ok.2
    witness_fs witness_fileOf
theorem witness_insert_no_temp : (run witness_fs (opSteps witness_s true witness_insert)).temp = none :=
  every_operation_removes_its_temp_file witness_s witness_inv witness_insert witness_insert_ok.1 witness_insert_ok.2
    witness_fs witness_fileOf
theorem witness_count_no_temp : (run witness_fs (opSteps witness_s true witness_count)).temp = none :=
  every_operation_removes_its_temp_file witness_s witness_inv witness_count witness_count_ok.1 witness_count_ok.2
    witness_fs witness_fileOf

/-- … where the temp file really existed on the way (after 15 of the 22 / 29 calls) -/
theorem witness_temp_existed :
    (opSteps witness_s true witness_remove).length = 22 ∧
    (run witness_fs ((opSteps witness_s true witness_remove).take 15)).temp = some [witness_p1, witness_p3] ∧
    (opSteps witness_s true witness_update).length = 29 ∧
    (run witness_fs ((opSteps witness_s true witness_update).take 15)).temp = some [witness_p1, witness_p2'] := by
  decide +kernel

/-! ## the table-level theorems speak about non-empty tables -/

example : 5 < (opSteps witness_s true witness_remove).length := by decide +kernel
example : decosOf "remove" ≠ [] ∧ mutating.length = 7 := by decide

end TinyFlux.Props.C15
