import TinyFlux.Mirror.SearchTime
import TinyFlux.Mirror.Ops
/-!
# C08 over the translated source: the time search of `tinyflux/index.py`

`Index._search_timestamps` translated statement by statement from the working tree (see `C01Mirror.lean`): for an aware
comparison value the bisection runs on the instant (`rhs.timestamp()`), the operator is used only when the query is hashable (no
transform in the path) and the value is an aware `datetime`, and every other time query is answered by testing each timestamp
converted back with an explicit UTC zone. As a set of positions it is the Model's `searchTs`, which `Props/C08.lean`
(`time_query_same_on_both_paths`) proves equal to comparing instants.
-/
namespace TinyFlux.Props.C08
open TinyFlux.Spec TinyFlux.Model TinyFlux.Mirror TinyFlux.Generated

theorem translated_time_search (g : GSelf) (hlen : g._timestamps.length = g._storage_pos_sorted_by_ts.length) (l : Leaf) :
    match (Mirror.abs g).searchTs l with
    | .ok r' => ∃ r, IndexImpl._search_timestamps g (timeQuery l) = .ok r ∧ SameSet r r'
    | .error _ => ∃ e, IndexImpl._search_timestamps g (timeQuery l) = .error e :=
  search_timestamps_ok g hlen l

/-- non-vacuity: the index the translated `build` produces for two points with the same instant and one earlier meets
    the hypothesis (parallel time arrays), so the theorem applies to it -/
example : ∃ g', IndexImpl.build (IndexImpl.__init__ true)
      [{ time := 5, meas := "a", tags := [], fields := [] }, { time := 3, meas := "b", tags := [], fields := [] },
       { time := 5, meas := "a", tags := [], fields := [] }] = .ok g'
    ∧ g'._timestamps.length = g'._storage_pos_sorted_by_ts.length
    ∧ (match (Mirror.abs g').searchTs (.cmp .eq (.time 5)) with
       | .ok r' => ∃ r, IndexImpl._search_timestamps g' (timeQuery (.cmp .eq (.time 5))) = .ok r ∧ SameSet r r'
       | .error _ => ∃ e, IndexImpl._search_timestamps g' (timeQuery (.cmp .eq (.time 5))) = .error e) := by
  obtain ⟨g', h1, _, h3⟩ := build_ok (IndexImpl.__init__ true)
      [{ time := 5, meas := "a", tags := [], fields := [] }, { time := 3, meas := "b", tags := [], fields := [] },
       { time := 5, meas := "a", tags := [], fields := [] }]
  have hl : g'._timestamps.length = g'._storage_pos_sorted_by_ts.length := by
    have a := h3.ts; have b := h3.pos
    simp only [Mirror.abs] at a b
    rw [a, b]; simp [Index.build]
  exact ⟨g', h1, hl, translated_time_search g' hl _⟩

end TinyFlux.Props.C08
