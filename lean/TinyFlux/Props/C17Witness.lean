import TinyFlux.Props.C17
/-!
# C17 — non-vacuity witness

Two concrete leaf queries that differ only in the right-hand side (`TagQuery().host == "x"` / `== "y"`), their hash
tuples computed from the generated table, and the instantiated theorems: `leaf_hash_inj` (both directions of use),
`heq_sound` / `eq_sound` at two syntactically different compound queries that compare equal (hypotheses `hashOf … = some …`,
`heq … = true`, `qeq … = true` all hold) under a concrete environment for regexes / user functions and at a concrete
point where the common truth value is computed, `and_comm_eq` / `or_comm_eq` with their hashability side conditions,
and the side conditions shown to matter (a `map` query is not hashable and `a & m == m & a` is then false).
-/
namespace TinyFlux.Props.C17
open TinyFlux.Spec TinyFlux.Model.QHash TinyFlux.Generated

/-! ## two leaves with different right-hand sides -/

def witness_l1 : SLeaf := .cmp .eq (.str "x")
def witness_l2 : SLeaf := .cmp .eq (.str "y")

/-- `TagQuery().host == "x"`, `TagQuery().host == "y"` -/
def witness_q1 : SQ := .simple .tags [.key "host"] witness_l1
def witness_q2 : SQ := .simple .tags [.key "host"] witness_l2
/-- `FieldQuery().load >= 2.5`, `MeasurementQuery().matches("cp", flags=2)`, `TimeQuery().test(f₇, 1)` -/
def witness_q3 : SQ := .simple .fields [.key "load"] (.cmp .ge (.num (.fin (5/2))))
def witness_q4 : SQ := .simple .meas [] (.matches "cp" 2)
def witness_q5 : SQ := .simple .time [] (.test 7 [.num (.fin 1)])
/-- `TagQuery().host.map(f₃) == "x"`: not hashable -/
def witness_qm : SQ := .simple .tags [.key "host", .map 3] witness_l1

/-- the hash tuples, computed from the generated table: the right-hand side is a component -/
theorem witness_tuples :
    leafTuple .tags ["host"] witness_l1 = [.attr .tags, .op "==", .path ["host"], .val (.str "x")] ∧
    leafTuple .tags ["host"] witness_l2 = [.attr .tags, .op "==", .path ["host"], .val (.str "y")] :=
  ⟨tup_cmp _ _ _ _, tup_cmp _ _ _ _⟩

theorem witness_tuples_computed :
    leafTuple .tags ["host"] witness_l1 = [.attr .tags, .op "==", .path ["host"], .val (.str "x")] ∧
    leafTuple .fields ["load"] (.cmp .ge (.num (.fin (5/2)))) =
      [.attr .fields, .op ">=", .path ["load"], .val (.num (.fin (5/2)))] ∧
    leafTuple .meas [] (.matches "cp" 2) = [.attr .meas, .op "matches", .path [], .str "cp", .nat 2] ∧
    leafTuple .time [] (.test 7 [.num (.fin 1)]) = [.attr .time, .op "test", .path [], .fn 7, .vals [.num (.fin 1)]] := by
  decide +kernel

/-- `leaf_hash_inj`, contrapositive: leaves with different right-hand sides have different hashes -/
theorem witness_hashes_differ : leafTuple .tags ["host"] witness_l1 ≠ leafTuple .tags ["host"] witness_l2 :=
  fun h => absurd (leaf_hash_inj _ _ _ _ _ _ h).2.2 (by decide)

/-- … also when only the flags, only the key or only the attribute differ -/
theorem witness_hashes_differ' :
    leafTuple .meas [] (.matches "cp" 2) ≠ leafTuple .meas [] (.matches "cp" 0) ∧
    leafTuple .tags ["host"] witness_l1 ≠ leafTuple .tags ["dc"] witness_l1 ∧
    leafTuple .tags ["host"] .exists ≠ leafTuple .fields ["host"] .exists :=
  ⟨fun h => absurd (leaf_hash_inj _ _ _ _ _ _ h).2.2 (by decide),
   fun h => absurd (leaf_hash_inj _ _ _ _ _ _ h).2.1 (by decide),
   fun h => absurd (leaf_hash_inj _ _ _ _ _ _ h).1 (by decide)⟩

/-- `leaf_hash_inj`, direct: its hypothesis is satisfiable (by equal leaves only) -/
example := leaf_hash_inj .tags .tags ["host"] ["host"] witness_l1 (.cmp .eq (.str "x")) rfl

/-! ## a concrete environment and point -/

/-- regexes are prefix / substring tests, user predicate 7 tests for an even microsecond, map function 3 is the identity -/
def witness_env : Env :=
  { testFn := fun fn _ v => match fn, v with | 7, .time t => t % 2 == 0 | _, _ => false,
    mapFn := fun fn v => if fn = 3 then some v else none,
    reMatch := fun r _ s => r.toList.isPrefixOf s.toList,
    reSearch := fun r _ s => r.toList.isPrefixOf s.toList }

def witness_p : Point :=
  { time := 1700000000123456, meas := "cpu", tags := [("host", some "x")], fields := [("load", some (.fin 3))] }

/-- the leaves really are different queries: they disagree on this point -/
theorem witness_leaves_disagree :
    evalS witness_env witness_q1 witness_p = true ∧ evalS witness_env witness_q2 witness_p = false ∧
    qeq witness_q1 witness_q2 = false ∧ qeq witness_q1 witness_q1 = true := by decide +kernel

/-! ## `heq_sound`, `eq_sound` -/

/-- `(q1 & q3) | ~q4` and `~q4 | (q3 & q1)`: different syntax, equal as queries -/
def witness_a : SQ := .or (.and witness_q1 witness_q3) (.not witness_q4)
def witness_b : SQ := .or (.not witness_q4) (.and witness_q3 witness_q1)

def witness_h1 : HV := .tuple [.attr .tags, .op "==", .path ["host"], .val (.str "x")]
def witness_h3 : HV := .tuple [.attr .fields, .op ">=", .path ["load"], .val (.num (.fin (5/2)))]
def witness_h4 : HV := .tuple [.attr .meas, .op "matches", .path [], .str "cp", .nat 2]
def witness_ha : HV := .pair "or" (.pair "and" witness_h1 witness_h3) (.un "not" witness_h4)
def witness_hb : HV := .pair "or" (.un "not" witness_h4) (.pair "and" witness_h3 witness_h1)

theorem witness_hash_a : hashOf witness_a = some witness_ha := rfl
theorem witness_hash_b : hashOf witness_b = some witness_hb := rfl
theorem witness_heq : heq witness_ha witness_hb = true := by decide +kernel

theorem witness_heq_sound (p : Point) : evalS witness_env witness_a p = evalS witness_env witness_b p :=
  heq_sound witness_env witness_a witness_b witness_ha witness_hb witness_hash_a witness_hash_b witness_heq p

theorem witness_qeq : witness_a ≠ witness_b ∧ qeq witness_a witness_b = true := by decide +kernel

theorem witness_eq_sound (p : Point) : evalS witness_env witness_a p = evalS witness_env witness_b p :=
  eq_sound witness_env witness_a witness_b witness_qeq.2 p

/-- the common value at the concrete point (`host == "x"` and `load >= 2.5` hold), and at a point where the first
    disjunct fails and the measurement matches: `true` and `false` both occur -/
theorem witness_values :
    evalS witness_env witness_a witness_p = true ∧ evalS witness_env witness_b witness_p = true ∧
    evalS witness_env witness_a { witness_p with tags := [] } = false ∧
    evalS witness_env witness_b { witness_p with tags := [] } = false ∧
    evalS witness_env witness_q5 witness_p = true := by decide +kernel

/-- the hypothesis of `eq_sound` discriminates: swapping `x` for `y` gives an unequal query with a different value -/
theorem witness_not_equal :
    qeq witness_a (.or (.not witness_q4) (.and witness_q3 witness_q2)) = false ∧
    evalS witness_env (.or (.not witness_q4) (.and witness_q3 witness_q2)) witness_p = false := by decide +kernel

/-! ## commutativity, and its side conditions -/

theorem witness_hashable :
    (hashOf witness_q1).isSome = true ∧ (hashOf witness_q5).isSome = true ∧ (hashOf witness_a).isSome = true ∧
    hasMap witness_q1 = false ∧ hasMap witness_a = false := by decide +kernel

/-- `and_comm_eq` / `or_comm_eq` at a leaf and a user-predicate leaf, and at a leaf and a compound query -/
theorem witness_and_comm : qeq (.and witness_q1 witness_q5) (.and witness_q5 witness_q1) = true :=
  and_comm_eq witness_q1 witness_q5 rfl rfl
theorem witness_and_comm' : qeq (.and witness_q2 witness_a) (.and witness_a witness_q2) = true :=
  and_comm_eq witness_q2 witness_a rfl rfl
theorem witness_or_comm : qeq (.or witness_q1 witness_q5) (.or witness_q5 witness_q1) = true :=
  or_comm_eq witness_q1 witness_q5 rfl rfl

/-- the side condition matters: with a `map` in the path the query is not hashable, and commuted conjunctions are
    not equal (`map_never_equal`), not even the query to itself -/
theorem witness_map_not_hashable :
    hasMap witness_qm = true ∧ (hashOf witness_qm).isSome = false ∧
    qeq (.and witness_q1 witness_qm) (.and witness_qm witness_q1) = false ∧ qeq witness_qm witness_qm = false := by
  decide +kernel

theorem witness_map_never_equal :
    qeq (.and witness_q1 witness_qm) witness_a = false ∧ qeq witness_a (.and witness_q1 witness_qm) = false :=
  map_never_equal (.and witness_q1 witness_qm) witness_a rfl

/-- … although it has a perfectly good meaning (map function 3 is the identity here) -/
theorem witness_map_evaluates : evalS witness_env witness_qm witness_p = true := by decide +kernel

example := noop_never_equal .tags witness_q1
example := hashOf_none_of_hasMap witness_qm rfl
example := opTags_distinct .simple .compound

end TinyFlux.Props.C17
