import TinyFlux.Mirror.Ops
import TinyFlux.Mirror.Database
import TinyFlux.Mirror.Closed
import TinyFlux.Mirror.DbRemove
/-!
# C02 over the translated source: what `Index.remove` / `Index.update` of index.py do to the index after a removal

(see `C06Mirror.lean` for the construction). After `remove` has dropped the selected rows, the code calls
`Index.remove(removed positions)` and `Index.update(old position ↦ new position)`; as translated from the working
tree, the two leave exactly the index of the surviving points, in their original relative order.
-/
namespace TinyFlux.Props.C02
open TinyFlux.Spec TinyFlux.Model TinyFlux.Mirror TinyFlux.Generated

theorem translated_index_after_removal (g : GSelf) (l : List Point) (hg : GWF g) (h : Represents (Mirror.abs g) l)
    (keep : Nat → Bool) (removed : List Nat) (updated : AL Nat Nat)
    (hr : ∀ i, i < l.length → removed.contains i = !keep i)
    (hf : ∀ i, i < l.length → keep i = true → (updated.lookup i).getD i = cnt keep 0 i)
    (hlen : removed.length + (keepIdx keep l 0).length = l.length) :
    ∃ g1 g2, IndexImpl.remove g removed = .ok g1 ∧ IndexImpl.update g1 updated = .ok g2 ∧ GWF g2
      ∧ g2._valid = g._valid ∧ Represents (Mirror.abs g2) (keepIdx keep l 0) :=
  gen_remove_update_represents g l hg h keep removed updated hr hf hlen

/-- a removal of more positions than the index holds is not silently truncated by the translation -/
theorem translated_remove_range (g : GSelf) (r : List Nat) (hg : GWF g) (hgt : g._num_items < r.length) :
    IndexImpl.remove g r = .error .range :=
  remove_range g r hg hgt

/-- removing everything resets the index (`_reset_database` → `Index._reset`) -/
theorem translated_reset (g : GSelf) : IndexImpl._reset g = .ok (IndexImpl.__init__ true) := reset_ok g

/-- `TinyFlux._remove_helper` of database.py, translated statement by statement on every run (`Generated/DatabaseImpl.lean`:
    index path with / without measurement filter, scan path, the three exits `nothing removed` / `nothing kept` /
    `swap and renumber`), over the *translated* index and list-level storage: it returns the count the Model's `removeHelper`
    returns and a state that reads as the Model's result — which `remove_refines` (Props/C02.lean) proves to be the Spec's
    removal. What is not translated enters through `modelExt`: `query(point)`, `index_is_exact`, `Index.search`. -/
theorem translated_remove_helper (norm : Point → Point) (g : DSelf) (q : Query) (m : Option String)
    (hg : GWF g._index) (htemp : g._storage._temp = [])
    (hlen : g._auto_index = true → g._index._num_items = g._storage._items.length) :
    match (absDB norm g).removeHelper q m with
    | .ok (s', n) => ∃ g', DatabaseImpl._remove_helper modelExt g q m = .ok (g', n) ∧ StateEq (absDB norm g') s'
        ∧ GWF g'._index
    | .error _ => ∃ e', DatabaseImpl._remove_helper modelExt g q m = .error e' :=
  remove_helper_ok norm g q m hg htemp hlen

/-- … and over the *translated* `Index.search` (`translatedExt`): every method a removal runs through below
    `_remove_helper` — Index.search, _search_helper, the leaf searches, find_*, Index.remove / update / invalidate / _reset —
    is generated code; what stays outside is `query(point)`, `index_is_exact` and the storage object -/
theorem translated_remove_helper_closed (norm : Point → Point) (g : DSelf) (q : Query) (m : Option String)
    (hg : GWF g._index) (hts : g._index._timestamps.length = g._index._storage_pos_sorted_by_ts.length)
    (htemp : g._storage._temp = [])
    (hlen : g._auto_index = true → g._index._num_items = g._storage._items.length) :
    match (absDB norm g).removeHelper q m with
    | .ok (s', n) => ∃ g', DatabaseImpl._remove_helper translatedExt g q m = .ok (g', n) ∧ StateEq (absDB norm g') s'
        ∧ GWF g'._index
    | .error _ => ∃ e', DatabaseImpl._remove_helper translatedExt g q m = .error e' :=
  remove_helper_closed norm g q m hg hts htemp hlen

/-- the public entry points `TinyFlux.remove(query, measurement)` and `TinyFlux.drop_measurement(name)` as translated:
    what the Model's `step` computes for `.remove` / `.drop` once `readOp` has run -/
theorem translated_remove (norm : Point → Point) (g : DSelf) (q : Query) (m : Option String)
    (hg : GWF g._index) (hts : g._index._timestamps.length = g._index._storage_pos_sorted_by_ts.length)
    (htemp : g._storage._temp = [])
    (hlen : g._auto_index = true → g._index._num_items = g._storage._items.length) :
    match (absDB norm g).removeHelper q m with
    | .ok (s', n) => ∃ g', DatabaseImpl.remove translatedExt g q m = .ok (g', n) ∧ StateEq (absDB norm g') s'
        ∧ GWF g'._index
    | .error _ => ∃ e', DatabaseImpl.remove translatedExt g q m = .error e' :=
  db_remove_closed norm g q m hg hts htemp hlen

theorem translated_drop_measurement (norm : Point → Point) (g : DSelf) (name : String)
    (hg : GWF g._index) (hts : g._index._timestamps.length = g._index._storage_pos_sorted_by_ts.length)
    (htemp : g._storage._temp = [])
    (hlen : g._auto_index = true → g._index._num_items = g._storage._items.length) :
    match (absDB norm g).removeHelper (.meas (.cmp .eq (.str name))) (some name) with
    | .ok (s', n) => ∃ g', DatabaseImpl.drop_measurement translatedExt g name = .ok (g', n) ∧ StateEq (absDB norm g') s'
        ∧ GWF g'._index
    | .error _ => ∃ e', DatabaseImpl.drop_measurement translatedExt g name = .error e' :=
  db_drop_closed norm g name hg hts htemp hlen

/-- `TinyFlux._reset_database` as translated: the Model's `resetDatabase`, exactly -/
theorem translated_reset_database (norm : Point → Point) (g : DSelf) :
    ∃ g', DatabaseImpl._reset_database g = .ok g' ∧ absDB norm g' = (absDB norm g).resetDatabase
      ∧ g'._storage._temp = g._storage._temp ∧ GWF g'._index :=
  reset_database_ok norm g

/-- non-vacuity: a concrete translated database state (three rows, the index the translated `build` gives for them) meets
    the hypotheses of `translated_remove_helper` -/
example : ∃ idx, IndexImpl.build (IndexImpl.__init__ true)
      [{ time := 5, meas := "a", tags := [("k", some "v")], fields := [] },
       { time := 3, meas := "b", tags := [("k", some "w")], fields := [("f", none)] },
       { time := 5, meas := "a", tags := [], fields := [] }] = .ok idx
    ∧ GWF idx ∧ idx._num_items = 3 := by
  obtain ⟨g', h1, h2, h3⟩ := build_ok (IndexImpl.__init__ true)
      [{ time := 5, meas := "a", tags := [("k", some "v")], fields := [] },
       { time := 3, meas := "b", tags := [("k", some "w")], fields := [("f", none)] },
       { time := 5, meas := "a", tags := [], fields := [] }]
  refine ⟨g', h1, h2, ?_⟩
  have := h3.num
  simpa [Mirror.abs, Index.build, Index.buildFrom] using this

end TinyFlux.Props.C02
