import TinyFlux.Mirror.Ops
/-!
# C02 over the translated source: what `Index.remove` / `Index.update` of index.py do to the index after a removal

(see `C06Mirror.lean` for the construction). After `remove` has dropped the selected rows, the code calls
`Index.remove(removed positions)` and `Index.update(old position ↦ new position)`; as translated from the working
tree, the two leave exactly the index of the surviving points, in their original relative order.
-/
namespace TinyFlux.Props.C02
open TinyFlux.Spec TinyFlux.Model TinyFlux.Mirror TinyFlux.Generated

theorem translated_index_after_removal (g : GSelf) (l : List Point) (hg : GWF g) (h : Represents (Mirror.abs g) l)
    (keep : Nat → Bool) (removed : List Nat) (updated : AL Nat Nat)
    (hr : ∀ i, i < l.length → removed.contains i = !keep i)
    (hf : ∀ i, i < l.length → keep i = true → (updated.lookup i).getD i = cnt keep 0 i)
    (hlen : removed.length + (keepIdx keep l 0).length = l.length) :
    ∃ g1 g2, IndexImpl.remove g removed = .ok g1 ∧ IndexImpl.update g1 updated = .ok g2 ∧ GWF g2
      ∧ g2._valid = g._valid ∧ Represents (Mirror.abs g2) (keepIdx keep l 0) :=
  gen_remove_update_represents g l hg h keep removed updated hr hf hlen

/-- a removal of more positions than the index holds is not silently truncated by the translation -/
theorem translated_remove_range (g : GSelf) (r : List Nat) (hg : GWF g) (hgt : g._num_items < r.length) :
    IndexImpl.remove g r = .error .range :=
  remove_range g r hg hgt

/-- removing everything resets the index (`_reset_database` → `Index._reset`) -/
theorem translated_reset (g : GSelf) : IndexImpl._reset g = .ok (IndexImpl.__init__ true) := reset_ok g

end TinyFlux.Props.C02
