import TinyFlux.Props.C04
import TinyFlux.Props.C04EndToEnd
/-!
# C04 — non-vacuity witness

The hypotheses of the end-to-end theorems of C04 (`Inv s`, `OpOK`, `MeasOK`, `OpsOK`, `FileOf s fs`) are jointly
satisfied by a concrete, non-trivial instance: a CSV database with auto-indexing holding three points (reached
from the empty database by two `insert` calls), the file state that goes with it, and four concrete operations
(a remove that removes one of the three points, an update that changes one, an insert of two points, a count).
The instantiated conclusions are then evaluated: the step lists are long (22 and 29 calls for the two rewrites)
and the file afterwards holds exactly the expected rows.
-/
namespace TinyFlux.Props.C04
open TinyFlux.Model TinyFlux.Model.IO TinyFlux.Spec

/-! ## the concrete instance -/

/-- CSV storage (the model's `norm` for CSV, as in `Driver/ModelMain.lean`), auto-indexing on -/
def witness_cfg : Cfg := { autoIndex := true, norm := id }

def witness_p1 : Point :=
  { time := 1000000, meas := "cpu", tags := [("host", some "a")], fields := [("load", some (.fin 1))] }
def witness_p2 : Point :=
  { time := 2000000, meas := "cpu", tags := [("host", some "b")], fields := [("load", some (.fin (5/2)))] }
def witness_p3 : Point :=
  { time := 3000000, meas := "mem", tags := [("host", some "a"), ("dc", none)], fields := [("free", none)] }
def witness_p4 : Point :=
  { time := 4000000, meas := "cpu", tags := [("host", some "c")], fields := [("load", some (.fin 3))] }
def witness_p5 : Point :=
  { time := 1500000, meas := "disk", tags := [], fields := [("used", some (.fin (-7)))] }
/-- `witness_p2` after the update below -/
def witness_p2' : Point :=
  { time := 2000000, meas := "cpu", tags := [("host", some "b")], fields := [("load", some (.fin 7))] }

/-- the history that builds the state: two `insert` calls -/
def witness_history : List Op := [.insert [some witness_p1, some witness_p2] none, .insert [some witness_p3] none]

/-- the state reached from the empty database -/
def witness_s : State := (runM (init witness_cfg) witness_history).1

/-- the file that goes with it: the three rows, nothing buffered, no temp file, handle open at the end -/
def witness_fs : FS Point := { primary := [witness_p1, witness_p2, witness_p3] }

/-- `db.remove(TagQuery().host == "b")`: removes the second of the three points -/
def witness_remove : Op := .remove (.tag "host" (.cmp .eq (.str "b"))) none
/-- `db.update(TagQuery().host == "b", fields={"load": 7})`: changes the second point -/
def witness_setLoad (v : Option Num) : Upd :=
  { time := none, meas := none, tags := none, fields := some (fun _ => .ok [("load", v)]),
    unsetTags := [], unsetFields := [] }
def witness_update : Op := .update false (.tag "host" (.cmp .eq (.str "b"))) (witness_setLoad (some (.fin 7))) none
/-- `db.insert_multiple([p4, p5])` (the second one out of time order) -/
def witness_insert : Op := .insert [some witness_p4, some witness_p5] none
/-- `db.count(MeasurementQuery() == "cpu")` -/
def witness_count : Op := .count (.meas (.cmp .eq (.str "cpu"))) none
/-- a remove that matches nothing -/
def witness_remove0 : Op := .remove (.tag "host" (.cmp .eq (.str "zzz"))) none

/-! ## the hypotheses hold -/

theorem witness_good_of_wf (p : Point) (h : WFPoint p) : Good witness_cfg p := ⟨h, rfl⟩

theorem witness_history_ok : OpsOK witness_cfg witness_history := by
  intro op hop
  simp only [witness_history, List.mem_cons, List.not_mem_nil, or_false] at hop
  rcases hop with rfl | rfl
  · refine ⟨?_, by simp [MeasOK]⟩
    intro p hp
    simp only [List.mem_cons, Option.some.injEq, List.not_mem_nil, or_false] at hp
    rcases hp with rfl | rfl <;> exact witness_good_of_wf _ ⟨by decide, by decide⟩
  · refine ⟨?_, by simp [MeasOK]⟩
    intro p hp
    simp only [List.mem_cons, Option.some.injEq, List.not_mem_nil, or_false] at hp
    subst hp
    exact witness_good_of_wf _ ⟨by decide, by decide⟩

/-- the state is reachable, hence satisfies the invariant -/
theorem witness_inv : Inv witness_s := (reachable witness_cfg witness_history witness_history_ok).1

theorem witness_storage : witness_s.storage = [witness_p1, witness_p2, witness_p3] := rfl
theorem witness_index_valid : witness_s.index.valid = true := rfl
theorem witness_index_nontrivial : witness_s.index.numItems = 3 ∧ witness_s.index.ts = [1000000, 2000000, 3000000] := ⟨rfl, rfl⟩

theorem witness_fileOf : FileOf witness_s witness_fs := ⟨rfl, ⟨rfl, rfl, rfl⟩⟩

/-! ### `OpOK` / `MeasOK` of the four operations -/

theorem witness_remove_ok : OpOK witness_s.cfg witness_remove ∧ MeasOK witness_remove :=
  ⟨trivial, by simp [MeasOK, witness_remove]⟩
theorem witness_count_ok : OpOK witness_s.cfg witness_count ∧ MeasOK witness_count :=
  ⟨trivial, by simp [MeasOK, witness_count]⟩

theorem witness_insert_ok : OpOK witness_s.cfg witness_insert ∧ MeasOK witness_insert := by
  refine ⟨?_, by simp [MeasOK, witness_insert]⟩
  intro p hp
  simp only [List.mem_cons, Option.some.injEq, List.not_mem_nil, or_false] at hp
  rcases hp with rfl | rfl <;> exact witness_good_of_wf _ ⟨by decide, by decide⟩

private theorem mem_keys_dictSet {V : Type} (d : List (String × V)) (k : String) (v : V) (k' : String)
    (h : k' ∈ (dictSet d k v).map (·.1)) : k' = k ∨ k' ∈ d.map (·.1) := by
  induction d with
  | nil => simpa [dictSet] using h
  | cons kv t ih =>
    obtain ⟨a, b⟩ := kv
    unfold dictSet at h
    by_cases hk : (a == k) = true
    · simp only [hk, if_true, List.map_cons, List.mem_cons] at h
      exact Or.inr (by simpa using h)
    · simp only [hk, Bool.false_eq_true, if_false, List.map_cons, List.mem_cons] at h
      rcases h with h | h
      · exact Or.inr (by simp [h])
      · rcases ih h with h | h
        · exact Or.inl h
        · exact Or.inr (by simp [h])

private theorem nodup_keys_dictSet {V : Type} (d : List (String × V)) (k : String) (v : V)
    (h : (d.map (·.1)).Nodup) : ((dictSet d k v).map (·.1)).Nodup := by
  induction d with
  | nil => simp [dictSet]
  | cons kv t ih =>
    obtain ⟨a, b⟩ := kv
    simp only [List.map_cons, List.nodup_cons] at h
    unfold dictSet
    by_cases hk : (a == k) = true
    · simpa [hk] using h
    · simp only [hk, Bool.false_eq_true, if_false, List.map_cons, List.nodup_cons]
      refine ⟨?_, ih h.2⟩
      intro hm
      rcases mem_keys_dictSet t k v a hm with e | e
      · exact hk (by simp [e])
      · exact h.1 e

private theorem nodup_keys_eraseKeys {V : Type} (d : List (String × V)) (ks : List String)
    (h : (d.map (·.1)).Nodup) : ((eraseKeys d ks).map (·.1)).Nodup :=
  List.Nodup.sublist (List.Sublist.map _ List.filter_sublist) h

/-- `fields={"load": v}` maps storable points to storable points: the quantified `OpOK` hypothesis, by hand -/
theorem witness_setLoad_ok (all : Bool) (q : Query) (v : Option Num) :
    OpOK witness_s.cfg (.update all q (witness_setLoad v) none) ∧ MeasOK (.update all q (witness_setLoad v) none) := by
  refine ⟨?_, by simp [MeasOK]⟩
  intro p p' hp hu
  have e : p' = { time := p.time, meas := p.meas, tags := eraseKeys p.tags [],
                  fields := eraseKeys (dictSet p.fields "load" v) [] } := by
    simpa [upd, witness_setLoad, applyOpt, bind, Except.bind, pure, Except.pure, dictUpdate] using hu.symm
  subst e
  exact witness_good_of_wf _ ⟨nodup_keys_eraseKeys _ _ hp.1.1,
    nodup_keys_eraseKeys _ _ (nodup_keys_dictSet _ _ _ hp.1.2)⟩

theorem witness_update_ok : OpOK witness_s.cfg witness_update ∧ MeasOK witness_update :=
  witness_setLoad_ok _ _ _

/-! ## the theorems, instantiated -/

/-- `every_operation_leaves_the_file_holding_the_contents` at the remove … -/
theorem witness_remove_file :
    FileOf (witness_s.step witness_remove).1 (IO.run witness_fs (opSteps witness_s true witness_remove)) :=
  every_operation_leaves_the_file_holding_the_contents witness_s witness_inv witness_remove
    witness_remove_ok.1 witness_remove_ok.2 witness_fs witness_fileOf

/-- … which is a real rewrite through a temp file (22 I/O calls), reports 1, and leaves exactly the two other rows -/
theorem witness_remove_concrete :
    (opSteps witness_s true witness_remove).length = 22 ∧
    (witness_s.step witness_remove).2 = .nat 1 ∧
    (witness_s.step witness_remove).1.storage = [witness_p1, witness_p3] ∧
    (IO.run witness_fs (opSteps witness_s true witness_remove)).primary = [witness_p1, witness_p3] ∧
    (IO.run witness_fs (opSteps witness_s true witness_remove)).temp = none := by decide +kernel

example : 5 < (opSteps witness_s true witness_remove).length := by decide

/-- at the update (a rewrite followed by the re-read that rebuilds the index: 29 calls) -/
theorem witness_update_file :
    FileOf (witness_s.step witness_update).1 (IO.run witness_fs (opSteps witness_s true witness_update)) :=
  every_operation_leaves_the_file_holding_the_contents witness_s witness_inv witness_update
    witness_update_ok.1 witness_update_ok.2 witness_fs witness_fileOf

theorem witness_update_concrete :
    (opSteps witness_s true witness_update).length = 29 ∧
    (witness_s.step witness_update).2 = .nat 1 ∧
    (IO.run witness_fs (opSteps witness_s true witness_update)).primary = [witness_p1, witness_p2', witness_p3] := by
  decide +kernel

/-- at the insert of two points -/
theorem witness_insert_file :
    FileOf (witness_s.step witness_insert).1 (IO.run witness_fs (opSteps witness_s true witness_insert)) :=
  every_operation_leaves_the_file_holding_the_contents witness_s witness_inv witness_insert
    witness_insert_ok.1 witness_insert_ok.2 witness_fs witness_fileOf

theorem witness_insert_concrete :
    (opSteps witness_s true witness_insert).length = 10 ∧
    (witness_s.step witness_insert).2 = .nat 2 ∧
    (IO.run witness_fs (opSteps witness_s true witness_insert)).primary =
      [witness_p1, witness_p2, witness_p3, witness_p4, witness_p5] := by decide +kernel

/-- at the count (answered from the index: no I/O at all, the file is as before) -/
theorem witness_count_file :
    FileOf (witness_s.step witness_count).1 (IO.run witness_fs (opSteps witness_s true witness_count)) :=
  every_operation_leaves_the_file_holding_the_contents witness_s witness_inv witness_count
    witness_count_ok.1 witness_count_ok.2 witness_fs witness_fileOf

theorem witness_count_concrete :
    (witness_s.step witness_count).2 = .nat 2 ∧
    (IO.run witness_fs (opSteps witness_s true witness_count)).primary = [witness_p1, witness_p2, witness_p3] := by
  decide +kernel

/-! ### a whole history -/

def witness_more : List Op := [witness_insert, witness_update, witness_remove, witness_count, witness_remove0]

theorem witness_more_ok : OpsOK witness_s.cfg witness_more := by
  intro op hop
  simp only [witness_more, List.mem_cons, List.not_mem_nil, or_false] at hop
  rcases hop with rfl | rfl | rfl | rfl | rfl
  · exact witness_insert_ok
  · exact witness_update_ok
  · exact witness_remove_ok
  · exact witness_count_ok
  · exact ⟨trivial, by simp [MeasOK, witness_remove0]⟩

/-- `every_history_leaves_the_file_holding_the_contents` at a five-operation history … -/
theorem witness_history_file :
    FileOf (runM witness_s witness_more).1 (IO.run witness_fs (historySteps witness_s witness_more)) :=
  every_history_leaves_the_file_holding_the_contents witness_s witness_inv witness_more witness_more_ok
    witness_fs witness_fileOf

/-- … of 90 I/O calls in all (the out-of-order insert invalidates the index, so the update re-reads the file first),
    after which the file holds four rows -/
theorem witness_history_concrete :
    (historySteps witness_s witness_more).length = 90 ∧
    (runM witness_s witness_more).2 = [.nat 2, .nat 1, .nat 1, .nat 2, .nat 0] ∧
    (IO.run witness_fs (historySteps witness_s witness_more)).primary =
      [witness_p1, witness_p3, witness_p4, witness_p5] := by decide +kernel

end TinyFlux.Props.C04
