import TinyFlux.Props.C08
/-!
# C08 — non-vacuity witness

Concrete instances of every theorem of C08 that has hypotheses: two presentations of one instant (12:13:20 at +02:00
and 10:13:20 UTC), a pair of adjacent microseconds in 2023 (`1700000000123456` and `…457` µs), a concrete rounding
function to a grid of 2²⁰ ticks per second that satisfies `NearGrid` for *every* instant (so the universally
quantified hypothesis `hf` of `float_keys_compare_like_instants` is satisfiable, not only pointwise), the concrete
float keys of the two adjacent microseconds, the way back (`NearMicro`), and two concrete database states with the
same contents, one answering from the index and one by scanning.
-/
namespace TinyFlux.Props.C08
open TinyFlux.Spec TinyFlux.Model

/-! ## instants and presentations -/

/-- 2023-11-14 22:13:20.123456 UTC, in µs -/
def witness_t : Time := 1700000000123456

/-- the same instant read off a clock at +02:00 and at UTC -/
def witness_a : Stamp := { wall := 1700007200123456, offset := 7200000000 }
def witness_b : Stamp := { wall := 1700000000123456, offset := 0 }

theorem witness_same_instant : witness_a.instant = witness_b.instant := by decide

/-- `stored_independent_of_presentation`: different presentations, identical stored value -/
theorem witness_stored_identically : witness_a ≠ witness_b ∧ normalise witness_a = normalise witness_b :=
  ⟨by decide, stored_independent_of_presentation witness_a witness_b witness_same_instant⟩

theorem witness_normalised : normalise witness_a = { wall := 1700000000123456, offset := 0 } := by decide

example := normalise_keeps_instant witness_a
example := normalise_idempotent witness_a

/-! ## queries compare instants, at microsecond resolution -/

def witness_p : Point := { time := witness_t, meas := "cpu", tags := [("host", some "a")], fields := [("load", some (.fin 1))] }

/-- `adjacent_microseconds_distinguished` at `witness_t` and `witness_t + 1` -/
theorem witness_adjacent :
    sem (.time (.cmp .lt (.time (witness_t + 1)))) witness_p = true ∧
    sem (.time (.cmp .lt (.time witness_t))) witness_p = false ∧
    sem (.time (.cmp .eq (.time (witness_t + 1)))) witness_p = false :=
  adjacent_microseconds_distinguished witness_t witness_p rfl

/-- the same, computed -/
theorem witness_adjacent_computed :
    sem (.time (.cmp .lt (.time 1700000000123457))) witness_p = true ∧
    sem (.time (.cmp .lt (.time 1700000000123456))) witness_p = false ∧
    sem (.time (.cmp .eq (.time 1700000000123457))) witness_p = false ∧
    sem (.time (.cmp .eq (.time 1700000000123456))) witness_p = true := by decide +kernel

/-- `time_query_compares_instants` for `≥` against the next microsecond: false -/
theorem witness_time_query :
    sem (.time (.cmp .ge (.time (witness_t + 1)))) witness_p =
      ordCmp .ge (decide (witness_p.time < witness_t + 1)) (witness_p.time == witness_t + 1) ∧
    ordCmp .ge (decide (witness_p.time < witness_t + 1)) (witness_p.time == witness_t + 1) = false :=
  ⟨time_query_compares_instants .ge (witness_t + 1) witness_p, by decide +kernel⟩

/-! ## the float keys -/

/-- round-to-nearest onto a grid of `G` ticks per second -/
def witness_toGrid (G n : Int) : Int := (2 * n * G + 1000000) / 2000000
/-- round-to-nearest back to microseconds -/
def witness_toMicro (G r : Int) : Int := (2 * r * 1000000 + G) / (2 * G)

/-- the hypothesis `hf : ∀ n, NearGrid G n (f n)` is satisfiable: rounding to nearest is within half a tick, always -/
theorem witness_nearGrid20 : ∀ n, NearGrid 1048576 n (witness_toGrid 1048576 n) := by
  intro n; unfold NearGrid witness_toGrid; omega
theorem witness_nearGrid22 : ∀ n, NearGrid 4194304 n (witness_toGrid 4194304 n) := by
  intro n; unfold NearGrid witness_toGrid; omega
theorem witness_nearMicro20 : ∀ r, NearMicro 1048576 r (witness_toMicro 1048576 r) := by
  intro r; unfold NearMicro witness_toMicro; omega

/-- the keys of the two adjacent microseconds on the 2²⁰ grid (and on the 2²² grid, binary64's spacing in 2023) -/
theorem witness_keys :
    witness_toGrid 1048576 1700000000123456 = 1782579200129453 ∧
    witness_toGrid 1048576 1700000000123457 = 1782579200129454 ∧
    witness_toGrid 4194304 1700000000123456 = 7130316800517812 ∧
    witness_toGrid 4194304 1700000000123457 = 7130316800517816 := by decide +kernel

/-- `grid_strictMono` at the adjacent microseconds, with the hypotheses checked numerically -/
theorem witness_strictMono : (1782579200129453 : Int) < 1782579200129454 :=
  grid_strictMono 1048576 1700000000123456 1700000000123457 1782579200129453 1782579200129454
    (by decide) (by decide) (by unfold NearGrid; decide) (by unfold NearGrid; decide)

/-- the grid hypothesis matters: on a grid of 1000 ticks per second both instants get the same key -/
theorem witness_coarse_grid_collides :
    witness_toGrid 1000 1700000000123456 = witness_toGrid 1000 1700000000123457 := by decide +kernel

/-- `float_keys_compare_like_instants` for the concrete rounding function, at the adjacent pair and in general -/
theorem witness_keys_compare :
    (witness_toGrid 1048576 1700000000123456 < witness_toGrid 1048576 1700000000123457 ↔
      (1700000000123456 : Int) < 1700000000123457) ∧
    (witness_toGrid 1048576 1700000000123456 = witness_toGrid 1048576 1700000000123457 ↔
      (1700000000123456 : Int) = 1700000000123457) :=
  float_keys_compare_like_instants 1048576 (by decide) (witness_toGrid 1048576) witness_nearGrid20 _ _

theorem witness_keys_compare_all (n m : Int) :
    (witness_toGrid 4194304 n < witness_toGrid 4194304 m ↔ n < m) ∧
    (witness_toGrid 4194304 n = witness_toGrid 4194304 m ↔ n = m) :=
  float_keys_compare_like_instants 4194304 (by decide) (witness_toGrid 4194304) witness_nearGrid22 n m

/-- `grid20_roundtrip`: the key of `witness_t`, converted back, is `witness_t` — by the theorem, and computed -/
theorem witness_roundtrip :
    witness_toMicro 1048576 (witness_toGrid 1048576 witness_t) = witness_t :=
  grid20_roundtrip witness_t _ _ (witness_nearGrid20 witness_t) (witness_nearMicro20 _)

theorem witness_roundtrip_computed :
    witness_toMicro 1048576 1782579200129453 = 1700000000123456 ∧
    witness_toMicro 1048576 1782579200129454 = 1700000000123457 := by decide +kernel

theorem witness_roundtrip_all (n : Int) : witness_toMicro 1048576 (witness_toGrid 1048576 n) = n :=
  grid20_roundtrip n _ _ (witness_nearGrid20 n) (witness_nearMicro20 _)

/-! ## on the model: index path and scan path -/

def witness_p1 : Point := { time := 1700000000123455, meas := "cpu", tags := [], fields := [("load", some (.fin 1))] }
def witness_p2 : Point := witness_p
def witness_p3 : Point := { time := 1700000000123457, meas := "mem", tags := [("host", none)], fields := [] }
def witness_history : List Op := [.insert [some witness_p1, some witness_p2, some witness_p3] none]

/-- auto-indexing: time queries are answered by bisecting the index's sorted keys -/
def witness_s₁ : State := (runM (init { autoIndex := true, norm := id }) witness_history).1
/-- no auto-indexing: the insert invalidates the index, time queries scan -/
def witness_s₂ : State := (runM (init { autoIndex := false, norm := id }) witness_history).1

theorem witness_history_ok (cfg : Cfg) (h : cfg.norm = id) : OpsOK cfg witness_history := by
  intro op hop
  simp only [witness_history, List.mem_cons, List.not_mem_nil, or_false] at hop
  subst hop
  refine ⟨?_, by simp [MeasOK]⟩
  intro p hp
  simp only [List.mem_cons, Option.some.injEq, List.not_mem_nil, or_false] at hp
  rcases hp with rfl | rfl | rfl <;> exact ⟨⟨by decide, by decide⟩, by rw [h]; rfl⟩

theorem witness_inv₁ : Inv witness_s₁ := (reachable _ witness_history (witness_history_ok _ rfl)).1
theorem witness_inv₂ : Inv witness_s₂ := (reachable _ witness_history (witness_history_ok _ rfl)).1

theorem witness_paths_differ :
    witness_s₁.index.valid = true ∧ witness_s₂.index.valid = false ∧
    witness_s₁.index.ts = [1700000000123455, 1700000000123456, 1700000000123457] ∧
    witness_s₁.storage = witness_s₂.storage := by decide +kernel

/-- `time_query_same_on_both_paths` for `time < witness_t + 1` -/
theorem witness_both_paths :
    (witness_s₁.step (.search (.time (.cmp .lt (.time (witness_t + 1)))) none false)).2 =
    (witness_s₂.step (.search (.time (.cmp .lt (.time (witness_t + 1)))) none false)).2 :=
  time_query_same_on_both_paths witness_s₁ witness_s₂ witness_inv₁ witness_inv₂ rfl .lt (witness_t + 1) false

/-- … and the answer: the first two points, not the third (one microsecond later) -/
theorem witness_both_paths_computed :
    (witness_s₁.step (.search (.time (.cmp .lt (.time (witness_t + 1)))) none false)).2 = .points [witness_p1, witness_p2] ∧
    (witness_s₂.step (.search (.time (.cmp .lt (.time (witness_t + 1)))) none false)).2 = .points [witness_p1, witness_p2] ∧
    (witness_s₁.step (.search (.time (.cmp .eq (.time witness_t))) none false)).2 = .points [witness_p2] := by
  decide +kernel

example := sorted_stable [witness_p3, witness_p1, witness_p2] .noop none

/-! ## `update(time=…)` -/

def witness_upd : Upd :=
  { time := some (fun t => .ok (t + 1)), meas := none, tags := none, fields := none, unsetTags := [], unsetFields := [] }

/-- `update_time_is_instant` with a callable that adds one microsecond -/
theorem witness_update_time :
    ({ witness_p with time := 1700000000123457 } : Point).time = witness_t + 1 :=
  update_time_is_instant witness_upd witness_p { witness_p with time := 1700000000123457 } (fun t => .ok (t + 1))
    (witness_t + 1) rfl rfl rfl

end TinyFlux.Props.C08
