import TinyFlux.Props.C01
/-!
# C02 — remove deletes exactly the matching points and nothing else

For every state satisfying the invariant (every reachable state, `Props/C06.lean`), every query and
measurement filter. "All operations that follow" are covered because the resulting state again
satisfies the invariant and holds exactly the Spec's contents, so every theorem of C01/C07 applies.
Guard: the measurement argument is not `""` (known finding `empty-measurement-name`).
-/
namespace TinyFlux.Props.C02
open TinyFlux.Spec TinyFlux.Model

/-- `remove(query, measurement)`: the survivors are the non-selected points, unmodified and in their
    original relative order; the call returns the number of selected points; the invariant is kept -/
theorem remove_refines (s : State) (hs : Inv s) (q : Query) (m : Option String) (hm : m ≠ some "") :
    (s.step (.remove q m)).1.storage = s.storage.filter (fun p => !selected q m p) ∧
    (s.step (.remove q m)).2 = .nat (s.storage.filter (selected q m)).length ∧
    Inv (s.step (.remove q m)).1 := by
  obtain ⟨a, b, _, d⟩ := Writes.remove_refines s hs q m hm
  refine ⟨by rw [b]; rfl, ?_, d⟩
  rw [a]
  simp [Spec.step, Spec.remove, Spec.count, Spec.search]

/-- `drop_measurement(name)` removes exactly the points of that measurement -/
theorem drop_refines (s : State) (hs : Inv s) (name : String) (hn : name ≠ "") :
    (s.step (.drop name)).1.storage = s.storage.filter (fun p => p.meas != name) ∧
    (s.step (.drop name)).2 = .nat (s.storage.filter (fun p => p.meas == name)).length ∧
    Inv (s.step (.drop name)).1 := by
  obtain ⟨a, b, _, d⟩ := Writes.drop_refines s hs name hn
  have hsel : ∀ p : Point, selected .noop (some name) p = (p.meas == name) := by
    intro p
    simp only [selected, sem, Option.all_some, Bool.and_true]
    rw [Bool.eq_iff_iff]; simp only [beq_iff_eq]; exact eq_comm
  refine ⟨?_, ?_, d⟩
  · rw [b]
    simp only [Spec.step, Spec.drop, Spec.remove]
    apply List.filter_congr; intro p _
    rw [hsel]; rfl
  · rw [a]
    simp only [Spec.step, Spec.drop, Spec.remove, Spec.count, Spec.search, Bool.false_eq_true, if_false]
    congr 2
    apply List.filter_congr; intro p _
    exact hsel p

theorem removeAll_refines (s : State) (hs : Inv s) :
    (s.step .removeAll).1.storage = [] ∧ Inv (s.step .removeAll).1 := by
  obtain ⟨_, b, _, d⟩ := Writes.removeAll_refines s hs
  exact ⟨by rw [b]; rfl, d⟩

/-- a removal that matches nothing changes nothing and reports 0 -/
theorem remove_nothing_is_identity (s : State) (hs : Inv s) (q : Query) (m : Option String) (hm : m ≠ some "")
    (hnone : ∀ p ∈ s.storage, selected q m p = false) :
    (s.step (.remove q m)).1.storage = s.storage ∧ (s.step (.remove q m)).2 = .nat 0 := by
  obtain ⟨a, b, _⟩ := remove_refines s hs q m hm
  rw [a, b]
  constructor
  · rw [List.filter_eq_self]
    intro p hp; simp [hnone p hp]
  · have : s.storage.filter (selected q m) = [] := by
      rw [List.filter_eq_nil_iff]
      intro p hp; simp [hnone p hp]
    rw [this]; rfl

/-- every other point is still present, unmodified, in its original relative order -/
theorem survivors_sublist (s : State) (hs : Inv s) (q : Query) (m : Option String) (hm : m ≠ some "") :
    (s.step (.remove q m)).1.storage.Sublist s.storage ∧
    ∀ p ∈ s.storage, selected q m p = false → p ∈ (s.step (.remove q m)).1.storage := by
  obtain ⟨a, _, _⟩ := remove_refines s hs q m hm
  rw [a]
  refine ⟨List.filter_sublist, fun p hp hsel => ?_⟩
  rw [List.mem_filter]
  exact ⟨hp, by simp [hsel]⟩

/-- and every read that follows the removal sees exactly the Spec's database -/
theorem reads_after_remove (s : State) (hs : Inv s) (q q' : Query) (m m' : Option String) (sorted : Bool)
    (hm : m ≠ some "") (hm' : m' ≠ some "") :
    ((s.step (.remove q m)).1.step (.search q' m' sorted)).2 =
      .points (Spec.search (s.storage.filter (fun p => !selected q m p)) q' m' sorted) := by
  obtain ⟨a, _, c⟩ := remove_refines s hs q m hm
  rw [C01.search_refines _ c q' m' sorted hm', a]

end TinyFlux.Props.C02
