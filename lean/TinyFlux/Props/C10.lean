import TinyFlux.Lemmas.Refinement
import TinyFlux.Lemmas.PropsAux2
import TinyFlux.Generated.Forward
/-!
# C10 — a Measurement handle is exactly the database restricted to that measurement

Two halves. (T) `forward_table_correct`: over the table `Generated.forward` that the translator
regenerates from `measurement.py` + `database.py` (every `Measurement` method, the `TinyFlux` method it
calls, and which argument is bound to which parameter — positional arguments resolved against the
parsed signatures), every method calls its namesake with every own parameter bound to the parameter
of the same name and the measurement parameter bound to `self._name`. So an operation through
`db.measurement(name)` *is* the database operation with `m = some name`; the handle holds only the
name, so it does not matter when it was obtained. (C) what the database operation with a
measurement filter does — stated here on the model, whose refinement of the Spec is
`Lemmas/Refinement.lean`.
Guard: `name ≠ ""` (known finding `empty-measurement-name`).
-/
namespace TinyFlux.Props.C10
open TinyFlux.Spec TinyFlux.Model TinyFlux.Model.PropsAux2

/-- the `TinyFlux` method a `Measurement` method must call -/
def targetOf (meth : String) : String :=
  if meth = "remove_all" then "drop_measurement" else if meth = "update_all" then "update" else meth

/-- the parameter of the target that receives `self._name` -/
def measParam (target : String) : String :=
  if target = "drop_measurement" then "name" else if target = "update" then "_measurement" else "measurement"

/-- own parameter ↦ parameter of the same name (`select`'s `keys` is `select_keys` in `TinyFlux`) -/
def renameParam (p : String) : String := if p = "keys" then "select_keys" else p

def entryOK (e : String × String × List String × List (String × String)) : Bool :=
  let (meth, tgt, own, binds) := e
  tgt == targetOf meth &&
  own.all (fun p => binds.contains (renameParam p, p)) &&
  binds.contains (measParam tgt, "!name") &&
  binds.all (fun b => b.2 == "!name" → b.1 == measParam tgt) &&
  binds.all (fun b => own.contains b.2 || b.2 == "!name" || (meth == "update_all" && b == ("query", "!noop_measurement_query"))) &&
  (binds.map (·.1)).eraseDups.length == binds.length

/-- every `Measurement` method forwards to its namesake, parameter by parameter, with the measurement
    parameter bound to `self._name`; the methods implemented locally are exactly `__iter__/__len__/all` -/
theorem forward_table_correct :
    Generated.forward.all entryOK = true ∧
    Generated.forward.map (·.1) =
      ["contains", "count", "get", "get_field_keys", "get_field_values", "get_tag_keys", "get_tag_values",
       "get_timestamps", "insert", "insert_multiple", "remove", "remove_all", "search", "select", "update", "update_all"] ∧
    Generated.measurementLocal = ["__iter__", "__len__", "all"] := by
  refine ⟨by decide, rfl, rfl⟩

/-- reads through a handle return only points of that measurement, and all of those that match -/
theorem handle_search (s : State) (hs : Inv s) (name : String) (hn : name ≠ "") (q : Query) (sorted : Bool) :
    (s.step (.search q (some name) sorted)).2 = .points (Spec.search s.storage q (some name) sorted) ∧
    ∀ p ∈ Spec.search s.storage q (some name) sorted, p.meas = name := by
  have hm : MeasOK (.search q (some name) sorted) := by simpa [MeasOK] using hn
  have h := (step_read_refines s hs (.search q (some name) sorted) rfl hm).1
  refine ⟨canon_eq (by intro l; simp) h, fun p hp => mem_search_meas _ q name sorted p hp⟩

/-- `len`, iteration and `all()` of a handle (implemented locally in `Measurement`) -/
theorem handle_len_iter (s : State) (hs : Inv s) (name : String) (hn : name ≠ "") :
    (s.step (.mlen name)).2 = .nat (s.storage.filter (fun p => p.meas == name)).length ∧
    (s.step (.miter name)).2 = .points (s.storage.filter (fun p => p.meas == name)) := by
  have h1 := (step_read_refines s hs (.mlen name) rfl hn).1
  have h2 := (step_read_refines s hs (.miter name) rfl hn).1
  have e1 := canon_eq (by intro l; simp [Spec.step]) h1
  have e2 := canon_eq (by intro l; simp [Spec.step]) h2
  rw [e1, e2]
  simp [Spec.step, restrict_some]

/-- removal through a handle never touches another measurement's points -/
theorem remove_other_measurements_untouched (s : State) (hs : Inv s) (name : String) (hn : name ≠ "") (q : Query) :
    (s.step (.remove q (some name))).1.storage.filter (fun p => p.meas != name) =
      s.storage.filter (fun p => p.meas != name) ∧
    (s.step (.drop name)).1.storage.filter (fun p => p.meas != name) =
      s.storage.filter (fun p => p.meas != name) := by
  have hm : MeasOK (.remove q (some name)) := by simpa [MeasOK] using hn
  have h1 := (step_write_refines s hs (.remove q (some name)) rfl trivial hm).2.1
  have h2 := (step_write_refines s hs (.drop name) rfl trivial hn).2.1
  rw [h1, h2]
  simp only [Spec.step, Spec.remove, Spec.drop]
  exact ⟨filter_other_meas _ q name, filter_other_meas _ .noop name⟩

/-- an update through a handle leaves every point of another measurement exactly where and as it was -/
theorem update_other_measurements_untouched (s : State) (hs : Inv s) (name : String) (hn : name ≠ "")
    (all : Bool) (q : Query) (u : Upd) (hok : OpOK s.cfg (.update all q u (some name))) :
    let s' := (s.step (.update all q u (some name))).1
    s'.storage.length = s.storage.length ∧
    ∀ i (hi : i < s.storage.length) (hi' : i < s'.storage.length), s.storage[i].meas ≠ name → s'.storage[i] = s.storage[i] := by
  have hm : MeasOK (.update all q u (some name)) := by simpa [MeasOK] using hn
  have h1 := (step_write_refines s hs (.update all q u (some name)) rfl hok hm).2.1
  intro s'
  show s'.storage.length = s.storage.length ∧ _
  have h1' : s'.storage = (Spec.step s.storage (.update all q u (some name))).1 := h1
  rw [h1']
  rcases spec_update_cases s.storage all q u (some name) with ⟨he, _⟩ | ⟨db', n, hu, hst⟩
  · rw [he]
    exact ⟨rfl, fun _ _ _ _ => rfl⟩
  · rw [hst]
    obtain ⟨hl, hun⟩ := update_order_untouched s.storage db' u _ (some name) n hu
    refine ⟨hl, fun i hi hi' hne => hun i hi hi' ?_⟩
    cases hsel : selected (if all then .noop else q) (some name) s.storage[i] with
    | false => rfl
    | true => exact absurd (selected_meas _ name _ hsel) hne

/-- inserting through a handle stores every point under the handle's measurement name -/
theorem insert_through_handle_sets_measurement (s : State) (hs : Inv s) (name : String) (hn : name ≠ "")
    (pts : List Point) (hok : OpOK s.cfg (.insert (pts.map some) (some name))) :
    (s.step (.insert (pts.map some) (some name))).1.storage = s.storage ++ pts.map (fun p => { p with meas := name }) ∧
    (s.step (.insert (pts.map some) (some name))).2 = .nat pts.length := by
  have hm : MeasOK (.insert (pts.map some) (some name)) := by simpa [MeasOK] using hn
  obtain ⟨h1, h2, _, _⟩ := step_write_refines s hs (.insert (pts.map some) (some name)) rfl hok hm
  rw [h1, h2]
  simp [Spec.step, insertPrefix_some]

/-- the getters of a handle see only the handle's measurement -/
theorem handle_getters (s : State) (hs : Inv s) (name : String) (hn : name ≠ "") (k : String) :
    (s.step (.getTimestamps (some name))).2 = .times ((s.storage.filter (fun p => p.meas == name)).map (·.time)) ∧
    (s.step (.getFieldValues k (some name))).2 =
      .nums ((s.storage.filter (fun p => p.meas == name)).filterMap (fun p => p.fields.lookup k)) := by
  have hm1 : MeasOK (.getTimestamps (some name)) := by simpa [MeasOK] using hn
  have hm2 : MeasOK (.getFieldValues k (some name)) := by simpa [MeasOK] using hn
  have h1 := (step_read_refines s hs (.getTimestamps (some name)) rfl hm1).1
  have h2 := (step_read_refines s hs (.getFieldValues k (some name)) rfl hm2).1
  have e1 := canon_eq (by intro l; simp [Spec.step]) h1
  have e2 := canon_eq (by intro l; simp [Spec.step]) h2
  rw [e1, e2]
  simp [Spec.step, timestamps, fieldValues, restrict_some]

end TinyFlux.Props.C10
