import TinyFlux.Generated.Footprint
import TinyFlux.Model.Footprint
import TinyFlux.Generated.CallGraph
import TinyFlux.Model.CallGraph

/-! # C08: the state the code keeps is the state the Model has (database, index, point)

Over `Generated/Footprint.lean` (regenerated from the source on every run). A cache, a memo table or a flag added
to one of these classes or modules is state no theorem of this property covers: these stop checking. -/
namespace TinyFlux.Props.C08
open TinyFlux

/-- every attribute these classes assign is a component of the Model's state (`Model/Footprint.lean` says which) -/
theorem state_is_the_models_state :
    Generated.classState.lookup "database.TinyFlux" = some Model.Footprint.tinyFlux ∧
    Generated.classState.lookup "index.Index" = some Model.Footprint.index ∧
    Generated.classState.lookup "point.Point" = some Model.Footprint.point := by decide

/-- no module-level variable, caching decorator, `global`/`nonlocal` or mutable default argument beyond the
    modelled ones; no class the Model does not know -/
theorem no_hidden_state :
    Generated.moduleState.lookup "database" = Model.Footprint.modules.lookup "database" ∧
    Generated.moduleState.lookup "index" = Model.Footprint.modules.lookup "index" ∧
    Generated.moduleState.lookup "point" = Model.Footprint.modules.lookup "point" ∧
    Generated.classState.map (·.1) = Model.Footprint.classNames := by decide

/-- every function of these classes / modules calls, catches and raises exactly what it did when the Model was
    written against it and validated (`Model/CallGraph.lean`); and there is no table the Model does not know -/
theorem code_uses_the_modelled_primitives :
    Generated.calls_database_TinyFlux = Model.CallGraph.calls_database_TinyFlux ∧
    Generated.calls_database_toplevel = Model.CallGraph.calls_database_toplevel ∧
    Generated.calls_index_Index = Model.CallGraph.calls_index_Index ∧
    Generated.calls_index_IndexResult = Model.CallGraph.calls_index_IndexResult ∧
    Generated.calls_index_toplevel = Model.CallGraph.calls_index_toplevel ∧
    Generated.calls_point_Point = Model.CallGraph.calls_point_Point ∧
    Generated.calls_point_toplevel = Model.CallGraph.calls_point_toplevel ∧
    Generated.calls_queries_CompoundQuery = Model.CallGraph.calls_queries_CompoundQuery ∧
    Generated.calls_queries_SimpleQuery = Model.CallGraph.calls_queries_SimpleQuery ∧
    Generated.calls_queries_BaseQuery = Model.CallGraph.calls_queries_BaseQuery ∧
    Generated.calls_queries_TagQuery = Model.CallGraph.calls_queries_TagQuery ∧
    Generated.calls_queries_FieldQuery = Model.CallGraph.calls_queries_FieldQuery ∧
    Generated.calls_queries_MeasurementQuery = Model.CallGraph.calls_queries_MeasurementQuery ∧
    Generated.calls_queries_TimeQuery = Model.CallGraph.calls_queries_TimeQuery ∧
    Generated.calls_queries_toplevel = Model.CallGraph.calls_queries_toplevel ∧
    Generated.callGraphTables = Model.CallGraph.callGraphTables := ⟨rfl, rfl, rfl, rfl, rfl, rfl, rfl, rfl, rfl, rfl, rfl, rfl, rfl, rfl, rfl, rfl⟩

end TinyFlux.Props.C08
