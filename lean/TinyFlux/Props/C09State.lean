import TinyFlux.Generated.Footprint
import TinyFlux.Model.Footprint
import TinyFlux.Generated.CallGraph
import TinyFlux.Model.CallGraph

/-! # C09: the state the code keeps is the state the Model has (queries)

Over `Generated/Footprint.lean` (regenerated from the source on every run). A cache, a memo table or a flag added
to one of these classes or modules is state no theorem of this property covers: these stop checking. -/
namespace TinyFlux.Props.C09
open TinyFlux

/-- every attribute the query classes assign is a component of the Model's query / hash -/
theorem state_is_the_models_state :
    Model.Footprint.pick Generated.classState (Model.Footprint.queries.map (·.1)) = Model.Footprint.queries := by decide

/-- no module-level variable, caching decorator, `global`/`nonlocal` or mutable default argument beyond the
    modelled ones; no class the Model does not know -/
theorem no_hidden_state :
    Generated.moduleState.lookup "queries" = Model.Footprint.modules.lookup "queries" ∧
    Generated.classState.map (·.1) = Model.Footprint.classNames := by decide

/-- every function of these classes / modules calls, catches and raises exactly what it did when the Model was
    written against it and validated (`Model/CallGraph.lean`); and there is no table the Model does not know -/
theorem code_uses_the_modelled_primitives :
    Generated.calls_queries_CompoundQuery = Model.CallGraph.calls_queries_CompoundQuery ∧
    Generated.calls_queries_SimpleQuery = Model.CallGraph.calls_queries_SimpleQuery ∧
    Generated.calls_queries_BaseQuery = Model.CallGraph.calls_queries_BaseQuery ∧
    Generated.calls_queries_TagQuery = Model.CallGraph.calls_queries_TagQuery ∧
    Generated.calls_queries_FieldQuery = Model.CallGraph.calls_queries_FieldQuery ∧
    Generated.calls_queries_MeasurementQuery = Model.CallGraph.calls_queries_MeasurementQuery ∧
    Generated.calls_queries_TimeQuery = Model.CallGraph.calls_queries_TimeQuery ∧
    Generated.calls_queries_toplevel = Model.CallGraph.calls_queries_toplevel ∧
    Generated.callGraphTables = Model.CallGraph.callGraphTables := ⟨rfl, rfl, rfl, rfl, rfl, rfl, rfl, rfl, rfl⟩

end TinyFlux.Props.C09
