import TinyFlux.Generated.Footprint
import TinyFlux.Model.Footprint

/-! # C09: the state the code keeps is the state the Model has (queries)

Over `Generated/Footprint.lean` (regenerated from the source on every run). A cache, a memo table or a flag added
to one of these classes or modules is state no theorem of this property covers: these stop checking. -/
namespace TinyFlux.Props.C09
open TinyFlux

/-- every attribute the query classes assign is a component of the Model's query / hash -/
theorem state_is_the_models_state :
    Model.Footprint.pick Generated.classState (Model.Footprint.queries.map (·.1)) = Model.Footprint.queries := by decide

/-- no module-level variable, caching decorator, `global`/`nonlocal` or mutable default argument beyond the
    modelled ones; no class the Model does not know -/
theorem no_hidden_state :
    Generated.moduleState.lookup "queries" = Model.Footprint.modules.lookup "queries" ∧
    Generated.classState.map (·.1) = Model.Footprint.classNames := by decide

end TinyFlux.Props.C09
