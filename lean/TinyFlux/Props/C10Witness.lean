import TinyFlux.Props.C10
import TinyFlux.Props.C05
import TinyFlux.Model.Codec
/-!
# C10 — non-vacuity witnesses

The hypotheses of the theorems of `Props/C10.lean` (`Inv s`, `name ≠ ""`, `OpOK s.cfg (.update …)`,
`OpOK s.cfg (.insert …)`) are jointly satisfiable by concrete, non-trivial states, and the conclusions then say
something concrete: every theorem about the model is instantiated with the handle `"m1"` at a three-point,
two-measurement database under a CSV configuration (automatic index, the real row round trip as `norm`)
and a memory configuration (no automatic index), with all hypotheses discharged, and the resulting states
and return values are computed (`decide +kernel`). (`forward_table_correct` has no hypotheses.)

`OpOK` of an update quantifies over every storable point; it is proved for the CSV configuration from a
closed form of `Good csvCfg` (`good_csv_iff`), which needs the codec pair to be lawful on all values.
-/
namespace TinyFlux.Props.C10
open TinyFlux.Spec TinyFlux.Model

/-! ## the two configurations

`memCfg`: `MemoryStorage` (`norm = id`), here with automatic indexing off, so every answer below comes from
the scan path over an invalid index. `csvCfg`: `CSVStorage` with automatic indexing on; `norm` is the actual
row round trip `deserialize ∘ serialize` of `Model/Codec.lean` over a concrete codec pair (`wfc`, `wtc`:
the `float`/`datetime` text conversions are parameters of the model; any lawful pair will do, these two
are small enough for the kernel to run). A row that does not decode would come back as the junk point. -/

/-- text of a rational: sign letter, numerator in unary, `/`, denominator in unary (never a digit string) -/
def encQ (q : Rat) : Codec.Str :=
  (if q.num < 0 then 'm' else 'q') :: (List.replicate q.num.natAbs 'i' ++ '/' :: List.replicate q.den 'i')

def wfc : Codec.FieldCodec where
  repr
    | .ninf => ['n'] | .pinf => ['p'] | .fin q => encQ q
  parse
    | ['n'] => some .ninf
    | ['p'] => some .pinf
    | 'q' :: r => some (.fin (mkRat (r.takeWhile (· == 'i')).length ((r.dropWhile (· == 'i')).drop 1).length))
    | 'm' :: r => some (.fin (mkRat (-((r.takeWhile (· == 'i')).length : Int)) ((r.dropWhile (· == 'i')).drop 1).length))
    | _ => none

def wtc : Codec.TimeCodec where
  iso | .ofNat n => 'T' :: List.replicate n 'i' | .negSucc n => 'U' :: List.replicate n 'i'
  fromIso | 'T' :: r => some (Int.ofNat r.length) | 'U' :: r => some (Int.negSucc r.length) | _ => none

def csvNorm (p : Point) : Point :=
  match Codec.deserialize wfc wtc (Codec.serialize wfc wtc false p) with
  | some q => q
  | none => ⟨0, "", [], []⟩

def csvCfg : Cfg := { autoIndex := true, norm := csvNorm }
def memCfg : Cfg := { autoIndex := false, norm := id }

/-! ## three points in two measurements: a `None` tag value, a `None` field value, a non-integer field
value, and a tie in time (`p2`, `p3`) -/

def p1 : Point := ⟨10, "m1", [("a", some "x"), ("b", none)], [("f", some (.fin 2))]⟩
def p2 : Point := ⟨20, "m1", [("a", some "y")], [("f", some (.fin 7)), ("g", none)]⟩
def p3 : Point := ⟨20, "m2", [("a", some "x")], [("f", some (.fin (5 / 2)))]⟩

/-- the history that builds the state: an `insert_multiple`, then an `insert` -/
def ops0 : List Op := [.insert [some p1, some p2] none, .insert [some p3] none]

def sCsv : State := (runM (init csvCfg) ops0).1
def sMem : State := (runM (init memCfg) ops0).1

/-! ## the hypotheses hold: `Good`, `OpsOK`, `Inv` -/

/-- the three points survive the CSV round trip unchanged (the kernel runs the codec) -/
theorem witness_good_csv : Good csvCfg p1 ∧ Good csvCfg p2 ∧ Good csvCfg p3 :=
  ⟨⟨⟨by decide, by decide⟩, by decide +kernel⟩, ⟨⟨by decide, by decide⟩, by decide +kernel⟩,
   ⟨⟨by decide, by decide⟩, by decide +kernel⟩⟩

theorem witness_good_mem : Good memCfg p1 ∧ Good memCfg p2 ∧ Good memCfg p3 :=
  ⟨⟨⟨by decide, by decide⟩, rfl⟩, ⟨⟨by decide, by decide⟩, rfl⟩, ⟨⟨by decide, by decide⟩, rfl⟩⟩

/-- … and the round trip is not the identity: a tag value `"_none"` comes back as `None`, so not every
    point is `Good` for `csvCfg` -/
theorem witness_csv_norm_not_id : ¬ Good csvCfg ⟨10, "m1", [("a", some "_none")], []⟩ := by
  intro h
  exact absurd h.2 (by decide +kernel)

theorem witness_opsOK_csv : OpsOK csvCfg ops0 := by
  intro op hop
  simp only [ops0, List.mem_cons, List.not_mem_nil, or_false] at hop
  rcases hop with rfl | rfl
  · refine ⟨?_, by simp [MeasOK]⟩
    intro p hp
    simp only [List.mem_cons, Option.some.injEq, List.not_mem_nil, or_false] at hp
    rcases hp with rfl | rfl
    · exact witness_good_csv.1
    · exact witness_good_csv.2.1
  · refine ⟨?_, by simp [MeasOK]⟩
    intro p hp
    simp only [List.mem_cons, Option.some.injEq, List.not_mem_nil, or_false] at hp
    subst hp
    exact witness_good_csv.2.2

theorem witness_opsOK_mem : OpsOK memCfg ops0 := by
  intro op hop
  simp only [ops0, List.mem_cons, List.not_mem_nil, or_false] at hop
  rcases hop with rfl | rfl
  · refine ⟨?_, by simp [MeasOK]⟩
    intro p hp
    simp only [List.mem_cons, Option.some.injEq, List.not_mem_nil, or_false] at hp
    rcases hp with rfl | rfl
    · exact witness_good_mem.1
    · exact witness_good_mem.2.1
  · refine ⟨?_, by simp [MeasOK]⟩
    intro p hp
    simp only [List.mem_cons, Option.some.injEq, List.not_mem_nil, or_false] at hp
    subst hp
    exact witness_good_mem.2.2

/-- `Inv` of both states, through the reachability theorem -/
theorem witness_inv_csv : Inv sCsv := (reachable csvCfg ops0 witness_opsOK_csv).1
theorem witness_inv_mem : Inv sMem := (reachable memCfg ops0 witness_opsOK_mem).1

/-- the states are not trivial: three stored points; the CSV state has a valid, populated index (so
    `Inv.rep` says something), the memory state an invalidated one (so answers come from scanning) -/
theorem witness_state_csv :
    sCsv.storage = [p1, p2, p3] ∧ sCsv.storage.length = 3 ∧ sCsv.index.valid = true ∧
    sCsv.index.numItems = 3 ∧ sCsv.index.ts = [10, 20, 20] ∧ sCsv.index.pos = [0, 1, 2] ∧
    sCsv.cfg.autoIndex = true := by decide +kernel
theorem witness_state_mem :
    sMem.storage = [p1, p2, p3] ∧ sMem.storage.length = 3 ∧ sMem.index.valid = false ∧
    sMem.cfg.autoIndex = false := by decide +kernel
theorem witness_rep_csv : Represents sCsv.index sCsv.storage := witness_inv_csv.rep witness_state_csv.2.2.1

/-- no measurement filter used below is the empty string -/
theorem mOK (s : String) (h : s ≠ "" := by decide) : (some s : Option String) ≠ some "" := by
  intro e; exact h (Option.some.inj e)
theorem noneOK : (none : Option String) ≠ some "" := by simp

/-! ## what `Good csvCfg` is, in closed form

`OpOK` of an update quantifies over *every* storable point, not only the stored ones, so evaluating the
codec on three points is not enough: the codec pair is shown lawful for all values, which makes the row
round trip the map "replace a tag value `"_none"` by `None`" on dict-shaped points (C05 gives one
direction), and `Good csvCfg` the predicate "dict-shaped, no tag value `"_none"`". -/

theorem wtc_law (t : Int) : wtc.fromIso (wtc.iso t) = some t := by
  cases t <;> simp [wtc]

theorem wfc_parse_repr (n : Num) : wfc.parse (wfc.repr n) = some n := by
  cases n with
  | ninf => rfl
  | pinf => rfl
  | fin q =>
    by_cases h : q.num < 0
    · have e : (-(q.num.natAbs : Int)) = q.num := by omega
      simp [wfc, encQ, h, e, Rat.mkRat_self]
    · have e : (q.num.natAbs : Int) = q.num := by omega
      simp [wfc, encQ, h]
      rw [e, Rat.mkRat_self]

theorem wfc_shape (n : Num) : wfc.repr n ≠ [] ∧ Codec.isDigits (wfc.repr n) = false ∧
    ¬ (∃ t, wfc.repr n = '-' :: t ∧ Codec.isDigits t = true) := by
  cases n with
  | ninf => simp [wfc, Codec.isDigits]
  | pinf => simp [wfc, Codec.isDigits]
  | fin q => by_cases h : q.num < 0 <;> simp [wfc, encQ, h, Codec.isDigits]

theorem wfc_sentinel : Codec.SentinelNotNumber wfc := by
  simp [Codec.SentinelNotNumber, Lemmas.CodecLemmas.noneS_eq, wfc]

/-- what the CSV format does to a tag value: the sentinel text comes back as `None` -/
def scrub (v : Option String) : Option String := if v = some Generated.noneStr then none else v
def scrubTags (p : Point) : Point := { p with tags := p.tags.map (fun kv => (kv.1, scrub kv.2)) }

theorem serialize_scrub (p : Point) :
    Codec.serialize wfc wtc false (scrubTags p) = Codec.serialize wfc wtc false p := by
  have h : ∀ v : Option String, Lemmas.CodecLemmas.tagValCell (scrub v) = Lemmas.CodecLemmas.tagValCell v := by
    intro v
    cases v with
    | none => rfl
    | some s =>
      by_cases hs : s = Generated.noneStr
      · subst hs; simp [scrub, Lemmas.CodecLemmas.tagValCell, Codec.noneS]
      · simp [scrub, hs]
  rw [Lemmas.CodecLemmas.serialize_eq, Lemmas.CodecLemmas.serialize_eq]
  simp [scrubTags, Lemmas.CodecLemmas.tagCells, List.flatMap_map, h]

theorem codable_scrub (p : Point) (hp : WFPoint p) : Codec.Codable wfc wtc (scrubTags p) where
  timeOk := wtc_law _
  measOk := by intro h; simp [Generated.measEmptyAsSentinel] at h
  tagKeys := by simpa [scrubTags, List.map_map, Function.comp_def] using hp.1
  fieldKeys := hp.2
  tagVals := by
    intro kv hkv
    simp only [scrubTags, List.mem_map] at hkv
    obtain ⟨kv', _, rfl⟩ := hkv
    simp only [scrub]
    split <;> simp_all
  fieldVals := by
    intro kv _ n _
    exact ⟨wfc_parse_repr n, wfc_shape n⟩

/-- the closed form of the CSV round trip on dict-shaped points -/
theorem csvNorm_eq (p : Point) (hp : WFPoint p) : csvNorm p = scrubTags p := by
  unfold csvNorm
  rw [← serialize_scrub, C05.row_roundtrip_partial wfc wtc wfc_sentinel false _ (codable_scrub p hp)]

theorem map_eq_self {α} (f : α → α) (l : List α) (h : l.map f = l) : ∀ a ∈ l, f a = a := by
  induction l with
  | nil => simp
  | cons x t ih =>
    simp only [List.map_cons, List.cons.injEq] at h
    intro a ha
    rcases List.mem_cons.mp ha with rfl | ha
    · exact h.1
    · exact ih h.2 a ha

/-- what CSV storage holds faithfully, for this codec: dict-shaped points with no tag value `"_none"` -/
theorem good_csv_iff (p : Point) :
    Good csvCfg p ↔ WFPoint p ∧ ∀ kv ∈ p.tags, kv.2 ≠ some Generated.noneStr := by
  constructor
  · rintro ⟨hw, hn⟩
    refine ⟨hw, ?_⟩
    have : csvNorm p = p := hn
    rw [csvNorm_eq p hw] at this
    have ht : p.tags.map (fun kv => (kv.1, scrub kv.2)) = p.tags := congrArg Point.tags this
    intro kv hkv hv
    have := map_eq_self _ _ ht kv hkv
    rw [hv] at this
    have := congrArg Prod.snd this
    simp [scrub, hv] at this
  · rintro ⟨hw, hv⟩
    refine ⟨hw, ?_⟩
    show csvNorm p = p
    rw [csvNorm_eq p hw]
    have : p.tags.map (fun kv => (kv.1, scrub kv.2)) = p.tags := by
      conv => rhs; rw [← List.map_id p.tags]
      apply List.map_congr_left
      intro kv hkv
      have := hv kv hkv
      simp [scrub, this]
    cases p
    simp_all [scrubTags]

theorem good_mem_iff (p : Point) : Good memCfg p ↔ WFPoint p := by
  simp [Good, memCfg]

/-! ## updates that set one tag keep points storable -/

theorem dictSet_mem {V : Type} (d : List (String × V)) (k : String) (v : V) (kv : String × V)
    (h : kv ∈ dictSet d k v) : kv = (k, v) ∨ kv ∈ d := by
  induction d with
  | nil => simpa [dictSet] using h
  | cons x t ih =>
    obtain ⟨a, b⟩ := x
    unfold dictSet at h
    by_cases hk : a = k
    · subst hk
      simp only [beq_self_eq_true, if_true, List.mem_cons] at h
      rcases h with h | h
      · exact Or.inl h
      · exact Or.inr (List.mem_cons_of_mem _ h)
    · have hk' : (a == k) = false := by simpa using hk
      simp only [hk', Bool.false_eq_true, if_false, List.mem_cons] at h
      rcases h with h | h
      · exact Or.inr (h ▸ List.mem_cons_self)
      · rcases ih h with h | h
        · exact Or.inl h
        · exact Or.inr (List.mem_cons_of_mem _ h)

theorem dictSet_nodup {V : Type} (d : List (String × V)) (k : String) (v : V) (h : (d.map (·.1)).Nodup) :
    ((dictSet d k v).map (·.1)).Nodup := by
  induction d with
  | nil => simp [dictSet]
  | cons x t ih =>
    obtain ⟨a, b⟩ := x
    simp only [List.map_cons, List.nodup_cons] at h
    unfold dictSet
    by_cases hk : a = k
    · subst hk
      simpa using h
    · have hk' : (a == k) = false := by simpa using hk
      simp only [hk', Bool.false_eq_true, if_false, List.map_cons, List.nodup_cons]
      refine ⟨?_, ih h.2⟩
      intro hm
      obtain ⟨kv, hkv, hfst⟩ := List.mem_map.mp hm
      rcases dictSet_mem t k v kv hkv with rfl | hkv
      · exact hk hfst.symm
      · exact h.1 (List.mem_map.mpr ⟨kv, hkv, hfst⟩)

/-- an update that gives only `tags`, as a callable -/
def tagUpd (f : List (String × Option String) → Except Err (List (String × Option String))) : Upd :=
  { time := none, meas := none, tags := some f, fields := none, unsetTags := [], unsetFields := [] }

theorem upd_tagUpd (f : List (String × Option String) → Except Err (List (String × Option String)))
    (p p' : Point) (h : upd (tagUpd f) p = .ok p') :
    ∃ new, f p.tags = .ok new ∧ p' = { p with tags := dictUpdate p.tags new } := by
  cases hf : f p.tags with
  | error e => simp [upd, tagUpd, applyOpt, hf, bind, Except.bind, pure, Except.pure] at h
  | ok new =>
    refine ⟨new, rfl, ?_⟩
    simp [upd, tagUpd, applyOpt, hf, bind, Except.bind, pure, Except.pure, eraseKeys] at h
    subst h
    simp

/-- `OpOK` of an update whose callable, when it does not raise, sets the one tag `k := v` (`v` not the
    sentinel text): in both configurations, for every storable point -/
theorem opOK_tagUpd (cfg : Cfg) (hcfg : cfg = csvCfg ∨ cfg = memCfg)
    (f : List (String × Option String) → Except Err (List (String × Option String)))
    (k : String) (v : Option String) (hv : v ≠ some Generated.noneStr)
    (hf : ∀ tg new, f tg = .ok new → new = [(k, v)]) (all : Bool) (q : Query) (m : Option String) :
    OpOK cfg (.update all q (tagUpd f) m) := by
  intro p p' hg hu
  obtain ⟨new, hnew, rfl⟩ := upd_tagUpd f p p' hu
  rw [hf _ _ hnew]
  have e : dictUpdate p.tags [(k, v)] = dictSet p.tags k v := rfl
  rw [e]
  rcases hcfg with rfl | rfl
  · rw [good_csv_iff] at hg ⊢
    refine ⟨⟨dictSet_nodup _ _ _ hg.1.1, hg.1.2⟩, ?_⟩
    intro kv hkv
    rcases dictSet_mem _ _ _ _ hkv with rfl | hkv
    · exact hv
    · exact hg.2 kv hkv
  · rw [good_mem_iff] at hg ⊢
    exact ⟨dictSet_nodup _ _ _ hg.1, hg.2⟩

/-! ## C10: the main theorems at these states, through the handle `db.measurement("m1")` -/

/-- `tag a == "x"`: matches `p1` (in `m1`) and `p3` (in `m2`) -/
def qX : Query := .tag "a" (.cmp .eq (.str "x"))
/-- `~(field g exists)`: inexact; matches `p1` and `p3` -/
def qNG : Query := .not (.field "g" .exists)
/-- `tags={"a": "z"}` -/
def uZ : Upd := tagUpd (fun _ => .ok [("a", some "z")])

def p1z : Point := ⟨10, "m1", [("a", some "z"), ("b", none)], [("f", some (.fin 2))]⟩
def p2z : Point := ⟨20, "m1", [("a", some "z")], [("f", some (.fin 7)), ("g", none)]⟩
/-- `p3` as stored through the handle `m1` -/
def p3m1 : Point := ⟨20, "m1", [("a", some "x")], [("f", some (.fin (5 / 2)))]⟩
def p4 : Point := ⟨30, "other", [("c", some "w")], []⟩
def p4m1 : Point := ⟨30, "m1", [("c", some "w")], []⟩

theorem nameOK : ("m1" : String) ≠ "" := by decide

/-! ### `handle_search` -/
example :
    (sCsv.step (.search qX (some "m1") true)).2 = .points (Spec.search sCsv.storage qX (some "m1") true) ∧
    ∀ p ∈ Spec.search sCsv.storage qX (some "m1") true, p.meas = "m1" :=
  handle_search sCsv witness_inv_csv "m1" nameOK qX true
example :
    (sMem.step (.search qNG (some "m1") false)).2 = .points (Spec.search sMem.storage qNG (some "m1") false) ∧
    ∀ p ∈ Spec.search sMem.storage qNG (some "m1") false, p.meas = "m1" :=
  handle_search sMem witness_inv_mem "m1" nameOK qNG false
/-- the same queries match `p3` too when asked of the database; the handle returns `p1` only -/
theorem witness_handle_search_value :
    (sCsv.step (.search qX (some "m1") false)).2 = .points [p1] ∧ (sCsv.step (.search qX none false)).2 = .points [p1, p3] ∧
    (sMem.step (.search qNG (some "m1") false)).2 = .points [p1] ∧ (sMem.step (.search qNG none false)).2 = .points [p1, p3] ∧
    (sCsv.step (.search .noop (some "m1") false)).2 = .points [p1, p2] := by decide +kernel

/-! ### `handle_len_iter`, `handle_getters` -/
example :
    (sCsv.step (.mlen "m1")).2 = .nat (sCsv.storage.filter (fun p => p.meas == "m1")).length ∧
    (sCsv.step (.miter "m1")).2 = .points (sCsv.storage.filter (fun p => p.meas == "m1")) :=
  handle_len_iter sCsv witness_inv_csv "m1" nameOK
example :
    (sMem.step (.mlen "m1")).2 = .nat (sMem.storage.filter (fun p => p.meas == "m1")).length ∧
    (sMem.step (.miter "m1")).2 = .points (sMem.storage.filter (fun p => p.meas == "m1")) :=
  handle_len_iter sMem witness_inv_mem "m1" nameOK
example :
    (sCsv.step (.getTimestamps (some "m1"))).2 = .times ((sCsv.storage.filter (fun p => p.meas == "m1")).map (·.time)) ∧
    (sCsv.step (.getFieldValues "f" (some "m1"))).2 =
      .nums ((sCsv.storage.filter (fun p => p.meas == "m1")).filterMap (fun p => p.fields.lookup "f")) :=
  handle_getters sCsv witness_inv_csv "m1" nameOK "f"
example :
    (sMem.step (.getTimestamps (some "m1"))).2 = .times ((sMem.storage.filter (fun p => p.meas == "m1")).map (·.time)) ∧
    (sMem.step (.getFieldValues "g" (some "m1"))).2 =
      .nums ((sMem.storage.filter (fun p => p.meas == "m1")).filterMap (fun p => p.fields.lookup "g")) :=
  handle_getters sMem witness_inv_mem "m1" nameOK "g"
theorem witness_handle_getters_value :
    (sCsv.step (.mlen "m1")).2 = .nat 2 ∧ (sCsv.step (.miter "m1")).2 = .points [p1, p2] ∧
    (sMem.step (.mlen "m1")).2 = .nat 2 ∧ (sMem.step (.miter "m1")).2 = .points [p1, p2] ∧
    (sCsv.step (.getFieldValues "f" (some "m1"))).2 = .nums [some (.fin 2), some (.fin 7)] ∧
    (sMem.step (.getFieldValues "g" (some "m1"))).2 = .nums [none] ∧
    (sMem.step (.getTimestamps (some "m1"))).2 = .times [10, 20] := by decide +kernel
/-- (indexed state: the time array is sorted back into storage order — evaluated through the theorem) -/
theorem witness_handle_timestamps_value : (sCsv.step (.getTimestamps (some "m1"))).2 = .times [10, 20] := by
  rw [(handle_getters sCsv witness_inv_csv "m1" nameOK "f").1]
  decide +kernel

/-! ### `remove_other_measurements_untouched` -/
example :
    (sCsv.step (.remove qX (some "m1"))).1.storage.filter (fun p => p.meas != "m1") =
      sCsv.storage.filter (fun p => p.meas != "m1") ∧
    (sCsv.step (.drop "m1")).1.storage.filter (fun p => p.meas != "m1") =
      sCsv.storage.filter (fun p => p.meas != "m1") :=
  remove_other_measurements_untouched sCsv witness_inv_csv "m1" nameOK qX
example :
    (sMem.step (.remove qNG (some "m1"))).1.storage.filter (fun p => p.meas != "m1") =
      sMem.storage.filter (fun p => p.meas != "m1") ∧
    (sMem.step (.drop "m1")).1.storage.filter (fun p => p.meas != "m1") =
      sMem.storage.filter (fun p => p.meas != "m1") :=
  remove_other_measurements_untouched sMem witness_inv_mem "m1" nameOK qNG
/-- `p3` matches both queries and stays, because it is in `m2` -/
theorem witness_handle_remove_value :
    (sCsv.step (.remove qX (some "m1"))).1.storage = [p2, p3] ∧ (sCsv.step (.remove qX (some "m1"))).2 = .nat 1 ∧
    (sMem.step (.remove qNG (some "m1"))).1.storage = [p2, p3] ∧ (sMem.step (.remove qNG (some "m1"))).2 = .nat 1 ∧
    (sCsv.step (.drop "m1")).1.storage = [p3] ∧ (sCsv.step (.drop "m1")).2 = .nat 2 ∧
    (sCsv.step (.drop "m1")).1.index.valid = true ∧ (sCsv.step (.drop "m1")).1.index.measItems "m2" = [0] ∧
    sCsv.storage.filter (fun p => p.meas != "m1") = [p3] := by decide +kernel

/-! ### `update_other_measurements_untouched` -/
theorem witness_opOK_uZ (cfg : Cfg) (hcfg : cfg = csvCfg ∨ cfg = memCfg) (all : Bool) (q : Query) (m : Option String) :
    OpOK cfg (.update all q uZ m) :=
  opOK_tagUpd cfg hcfg _ "a" (some "z") (by decide) (fun _ _ h => by injection h with h; exact h.symm) all q m

example :
    let s' := (sCsv.step (.update true qX uZ (some "m1"))).1
    s'.storage.length = sCsv.storage.length ∧
    ∀ i (_ : i < sCsv.storage.length) (_ : i < s'.storage.length), sCsv.storage[i].meas ≠ "m1" → s'.storage[i] = sCsv.storage[i] :=
  update_other_measurements_untouched sCsv witness_inv_csv "m1" nameOK true qX uZ (witness_opOK_uZ _ (Or.inl rfl) _ _ _)
example :
    let s' := (sMem.step (.update false qX uZ (some "m1"))).1
    s'.storage.length = sMem.storage.length ∧
    ∀ i (_ : i < sMem.storage.length) (_ : i < s'.storage.length), sMem.storage[i].meas ≠ "m1" → s'.storage[i] = sMem.storage[i] :=
  update_other_measurements_untouched sMem witness_inv_mem "m1" nameOK false qX uZ (witness_opOK_uZ _ (Or.inr rfl) _ _ _)
/-- at position 2 (`p3`, measurement `m2`): untouched -/
theorem witness_p3_untouched :
    ∃ (h2 : 2 < sCsv.storage.length) (h2' : 2 < (sCsv.step (.update true qX uZ (some "m1"))).1.storage.length),
      (sCsv.step (.update true qX uZ (some "m1"))).1.storage[2] = sCsv.storage[2] :=
  ⟨by decide +kernel, by decide +kernel,
   (update_other_measurements_untouched sCsv witness_inv_csv "m1" nameOK true qX uZ
      (witness_opOK_uZ _ (Or.inl rfl) _ _ _)).2 2 _ _ (by decide +kernel +revert)⟩
/-- `update_all` through the handle changes `p1` and `p2`; `update(qX)` through it changes `p1` only,
    although `p3` matches `qX` -/
theorem witness_handle_update_value :
    (sCsv.step (.update true qX uZ (some "m1"))).1.storage = [p1z, p2z, p3] ∧
    (sCsv.step (.update true qX uZ (some "m1"))).2 = .nat 2 ∧
    (sMem.step (.update false qX uZ (some "m1"))).1.storage = [p1z, p2, p3] ∧
    (sMem.step (.update false qX uZ (some "m1"))).2 = .nat 1 ∧
    (sMem.step (.update false qX uZ none)).1.storage = [p1z, p2, ⟨20, "m2", [("a", some "z")], [("f", some (.fin (5 / 2)))]⟩] := by
  decide +kernel

/-! ### `insert_through_handle_sets_measurement`: points of measurement `m2` and `other`, inserted through `m1` -/
theorem witness_opOK_handle_insert :
    OpOK sCsv.cfg (.insert ([p3, p4].map some) (some "m1")) ∧ OpOK sMem.cfg (.insert ([p3, p4].map some) (some "m1")) := by
  constructor <;>
  · intro p hp
    simp only [List.map_cons, List.map_nil, List.mem_cons, Option.some.injEq, List.not_mem_nil, or_false] at hp
    rcases hp with rfl | rfl
    · exact ⟨⟨by decide, by decide⟩, by decide +kernel⟩
    · exact ⟨⟨by decide, by decide⟩, by decide +kernel⟩

example :
    (sCsv.step (.insert ([p3, p4].map some) (some "m1"))).1.storage =
      sCsv.storage ++ [p3, p4].map (fun p => { p with meas := "m1" }) ∧
    (sCsv.step (.insert ([p3, p4].map some) (some "m1"))).2 = .nat [p3, p4].length :=
  insert_through_handle_sets_measurement sCsv witness_inv_csv "m1" nameOK [p3, p4] witness_opOK_handle_insert.1
example :
    (sMem.step (.insert ([p3, p4].map some) (some "m1"))).1.storage =
      sMem.storage ++ [p3, p4].map (fun p => { p with meas := "m1" }) ∧
    (sMem.step (.insert ([p3, p4].map some) (some "m1"))).2 = .nat [p3, p4].length :=
  insert_through_handle_sets_measurement sMem witness_inv_mem "m1" nameOK [p3, p4] witness_opOK_handle_insert.2
theorem witness_handle_insert_value :
    (sCsv.step (.insert ([p3, p4].map some) (some "m1"))).1.storage = [p1, p2, p3, p3m1, p4m1] ∧
    (sCsv.step (.insert ([p3, p4].map some) (some "m1"))).2 = .nat 2 ∧
    (sCsv.step (.insert ([p3, p4].map some) (some "m1"))).1.index.valid = true ∧
    (sCsv.step (.insert ([p3, p4].map some) (some "m1"))).1.index.measItems "m1" = [0, 1, 3, 4] ∧
    (sCsv.step (.insert ([p3, p4].map some) (some "m1"))).1.index.measItems "other" = [] ∧
    (sMem.step (.insert ([p3, p4].map some) (some "m1"))).1.storage = [p1, p2, p3, p3m1, p4m1] := by decide +kernel

end TinyFlux.Props.C10
