import TinyFlux.Props.C02
import TinyFlux.Model.Codec
/-!
# C02 — non-vacuity witnesses

The hypotheses of the theorems of `Props/C02.lean` (`Inv s`, `m ≠ some ""`, `name ≠ ""`, "matches nothing")
are jointly satisfiable by concrete, non-trivial states, and the conclusions then say something concrete:
every main theorem is instantiated at a three-point database under a CSV configuration (automatic index,
the real row round trip as `norm`) and a memory configuration (no automatic index) with a removal that
deletes one point of three (index path, with renumbering, resp. scan path), all hypotheses discharged,
and the resulting states and return values are computed (`decide +kernel`).
-/
namespace TinyFlux.Props.C02
open TinyFlux.Spec TinyFlux.Model

/-! ## the two configurations

`memCfg`: `MemoryStorage` (`norm = id`), here with automatic indexing off, so every answer below comes from
the scan path over an invalid index. `csvCfg`: `CSVStorage` with automatic indexing on; `norm` is the actual
row round trip `deserialize ∘ serialize` of `Model/Codec.lean` over a concrete codec pair (`wfc`, `wtc`:
the `float`/`datetime` text conversions are parameters of the model; any lawful pair will do, these two
are small enough for the kernel to run). A row that does not decode would come back as the junk point. -/

/-- text of a rational: sign letter, numerator in unary, `/`, denominator in unary (never a digit string) -/
def encQ (q : Rat) : Codec.Str :=
  (if q.num < 0 then 'm' else 'q') :: (List.replicate q.num.natAbs 'i' ++ '/' :: List.replicate q.den 'i')

def wfc : Codec.FieldCodec where
  repr
    | .ninf => ['n'] | .pinf => ['p'] | .fin q => encQ q
  parse
    | ['n'] => some .ninf
    | ['p'] => some .pinf
    | 'q' :: r => some (.fin (mkRat (r.takeWhile (· == 'i')).length ((r.dropWhile (· == 'i')).drop 1).length))
    | 'm' :: r => some (.fin (mkRat (-((r.takeWhile (· == 'i')).length : Int)) ((r.dropWhile (· == 'i')).drop 1).length))
    | _ => none

def wtc : Codec.TimeCodec where
  iso | .ofNat n => 'T' :: List.replicate n 'i' | .negSucc n => 'U' :: List.replicate n 'i'
  fromIso | 'T' :: r => some (Int.ofNat r.length) | 'U' :: r => some (Int.negSucc r.length) | _ => none

def csvNorm (p : Point) : Point :=
  match Codec.deserialize wfc wtc (Codec.serialize wfc wtc false p) with
  | some q => q
  | none => ⟨0, "", [], []⟩

def csvCfg : Cfg := { autoIndex := true, norm := csvNorm }
def memCfg : Cfg := { autoIndex := false, norm := id }

/-! ## three points in two measurements: a `None` tag value, a `None` field value, a non-integer field
value, and a tie in time (`p2`, `p3`) -/

def p1 : Point := ⟨10, "m1", [("a", some "x"), ("b", none)], [("f", some (.fin 2))]⟩
def p2 : Point := ⟨20, "m1", [("a", some "y")], [("f", some (.fin 7)), ("g", none)]⟩
def p3 : Point := ⟨20, "m2", [("a", some "x")], [("f", some (.fin (5 / 2)))]⟩

/-- the history that builds the state: an `insert_multiple`, then an `insert` -/
def ops0 : List Op := [.insert [some p1, some p2] none, .insert [some p3] none]

def sCsv : State := (runM (init csvCfg) ops0).1
def sMem : State := (runM (init memCfg) ops0).1

/-! ## the hypotheses hold: `Good`, `OpsOK`, `Inv` -/

/-- the three points survive the CSV round trip unchanged (the kernel runs the codec) -/
theorem witness_good_csv : Good csvCfg p1 ∧ Good csvCfg p2 ∧ Good csvCfg p3 :=
  ⟨⟨⟨by decide, by decide⟩, by decide +kernel⟩, ⟨⟨by decide, by decide⟩, by decide +kernel⟩,
   ⟨⟨by decide, by decide⟩, by decide +kernel⟩⟩

theorem witness_good_mem : Good memCfg p1 ∧ Good memCfg p2 ∧ Good memCfg p3 :=
  ⟨⟨⟨by decide, by decide⟩, rfl⟩, ⟨⟨by decide, by decide⟩, rfl⟩, ⟨⟨by decide, by decide⟩, rfl⟩⟩

/-- … and the round trip is not the identity: a tag value `"_none"` comes back as `None`, so not every
    point is `Good` for `csvCfg` -/
theorem witness_csv_norm_not_id : ¬ Good csvCfg ⟨10, "m1", [("a", some "_none")], []⟩ := by
  intro h
  exact absurd h.2 (by decide +kernel)

theorem witness_opsOK_csv : OpsOK csvCfg ops0 := by
  intro op hop
  simp only [ops0, List.mem_cons, List.not_mem_nil, or_false] at hop
  rcases hop with rfl | rfl
  · refine ⟨?_, by simp [MeasOK]⟩
    intro p hp
    simp only [List.mem_cons, Option.some.injEq, List.not_mem_nil, or_false] at hp
    rcases hp with rfl | rfl
    · exact witness_good_csv.1
    · exact witness_good_csv.2.1
  · refine ⟨?_, by simp [MeasOK]⟩
    intro p hp
    simp only [List.mem_cons, Option.some.injEq, List.not_mem_nil, or_false] at hp
    subst hp
    exact witness_good_csv.2.2

theorem witness_opsOK_mem : OpsOK memCfg ops0 := by
  intro op hop
  simp only [ops0, List.mem_cons, List.not_mem_nil, or_false] at hop
  rcases hop with rfl | rfl
  · refine ⟨?_, by simp [MeasOK]⟩
    intro p hp
    simp only [List.mem_cons, Option.some.injEq, List.not_mem_nil, or_false] at hp
    rcases hp with rfl | rfl
    · exact witness_good_mem.1
    · exact witness_good_mem.2.1
  · refine ⟨?_, by simp [MeasOK]⟩
    intro p hp
    simp only [List.mem_cons, Option.some.injEq, List.not_mem_nil, or_false] at hp
    subst hp
    exact witness_good_mem.2.2

/-- `Inv` of both states, through the reachability theorem -/
theorem witness_inv_csv : Inv sCsv := (reachable csvCfg ops0 witness_opsOK_csv).1
theorem witness_inv_mem : Inv sMem := (reachable memCfg ops0 witness_opsOK_mem).1

/-- the states are not trivial: three stored points; the CSV state has a valid, populated index (so
    `Inv.rep` says something), the memory state an invalidated one (so answers come from scanning) -/
theorem witness_state_csv :
    sCsv.storage = [p1, p2, p3] ∧ sCsv.storage.length = 3 ∧ sCsv.index.valid = true ∧
    sCsv.index.numItems = 3 ∧ sCsv.index.ts = [10, 20, 20] ∧ sCsv.index.pos = [0, 1, 2] ∧
    sCsv.cfg.autoIndex = true := by decide +kernel
theorem witness_state_mem :
    sMem.storage = [p1, p2, p3] ∧ sMem.storage.length = 3 ∧ sMem.index.valid = false ∧
    sMem.cfg.autoIndex = false := by decide +kernel
theorem witness_rep_csv : Represents sCsv.index sCsv.storage := witness_inv_csv.rep witness_state_csv.2.2.1

/-- no measurement filter used below is the empty string -/
theorem mOK (s : String) (h : s ≠ "" := by decide) : (some s : Option String) ≠ some "" := by
  intro e; exact h (Option.some.inj e)
theorem noneOK : (none : Option String) ≠ some "" := by simp

/-! ## C02: the main theorems at these states -/

/-- `tag a == "y"`: matches `p2` only — the middle row, so `p3` is renumbered -/
def qY : Query := .tag "a" (.cmp .eq (.str "y"))
/-- `tag a == "x"` -/
def qX : Query := .tag "a" (.cmp .eq (.str "x"))
/-- `~(field g exists)`: inexact (scan path also when indexed); matches `p1` and `p3` -/
def qNG : Query := .not (.field "g" .exists)
/-- matches nothing -/
def qNope : Query := .tag "a" (.cmp .eq (.str "nope"))

/-! ### `remove_refines` -/
example :
    (sCsv.step (.remove qY none)).1.storage = sCsv.storage.filter (fun p => !selected qY none p) ∧
    (sCsv.step (.remove qY none)).2 = .nat (sCsv.storage.filter (selected qY none)).length ∧
    Inv (sCsv.step (.remove qY none)).1 :=
  remove_refines sCsv witness_inv_csv qY none noneOK
example :
    (sMem.step (.remove qX (some "m1"))).1.storage = sMem.storage.filter (fun p => !selected qX (some "m1") p) ∧
    (sMem.step (.remove qX (some "m1"))).2 = .nat (sMem.storage.filter (selected qX (some "m1"))).length ∧
    Inv (sMem.step (.remove qX (some "m1"))).1 :=
  remove_refines sMem witness_inv_mem qX (some "m1") (mOK "m1")
/-- one point of three goes; the index stays valid and is renumbered (`p3`: position 2 ↦ 1) -/
theorem witness_remove_value :
    (sCsv.step (.remove qY none)).1.storage = [p1, p3] ∧ (sCsv.step (.remove qY none)).2 = .nat 1 ∧
    (sCsv.step (.remove qY none)).1.index.valid = true ∧
    (sCsv.step (.remove qY none)).1.index.numItems = 2 ∧
    (sCsv.step (.remove qY none)).1.index.pos = [0, 1] ∧
    (sCsv.step (.remove qY none)).1.index.ts = [10, 20] ∧
    (sCsv.step (.remove qY none)).1.index.measItems "m2" = [1] ∧
    (sMem.step (.remove qY none)).1.storage = [p1, p3] ∧ (sMem.step (.remove qY none)).2 = .nat 1 ∧
    (sMem.step (.remove qX (some "m1"))).1.storage = [p2, p3] ∧ (sMem.step (.remove qX (some "m1"))).2 = .nat 1 ∧
    (sCsv.step (.remove qX (some "m1"))).1.storage = [p2, p3] ∧ (sCsv.step (.remove qX (some "m1"))).2 = .nat 1 ∧
    (sCsv.step (.remove qNG none)).1.storage = [p2] ∧ (sCsv.step (.remove qNG none)).2 = .nat 2 ∧
    (sCsv.step (.remove qNG none)).1.index.valid = true := by decide +kernel

/-! ### `drop_refines`, `removeAll_refines` -/
example :
    (sCsv.step (.drop "m2")).1.storage = sCsv.storage.filter (fun p => p.meas != "m2") ∧
    (sCsv.step (.drop "m2")).2 = .nat (sCsv.storage.filter (fun p => p.meas == "m2")).length ∧
    Inv (sCsv.step (.drop "m2")).1 :=
  drop_refines sCsv witness_inv_csv "m2" (by decide)
example :
    (sMem.step (.drop "m1")).1.storage = sMem.storage.filter (fun p => p.meas != "m1") ∧
    (sMem.step (.drop "m1")).2 = .nat (sMem.storage.filter (fun p => p.meas == "m1")).length ∧
    Inv (sMem.step (.drop "m1")).1 :=
  drop_refines sMem witness_inv_mem "m1" (by decide)
example : (sCsv.step .removeAll).1.storage = [] ∧ Inv (sCsv.step .removeAll).1 :=
  removeAll_refines sCsv witness_inv_csv
example : (sMem.step .removeAll).1.storage = [] ∧ Inv (sMem.step .removeAll).1 :=
  removeAll_refines sMem witness_inv_mem
theorem witness_drop_value :
    (sCsv.step (.drop "m2")).1.storage = [p1, p2] ∧ (sCsv.step (.drop "m2")).2 = .nat 1 ∧
    (sCsv.step (.drop "m2")).1.index.valid = true ∧
    (sMem.step (.drop "m1")).1.storage = [p3] ∧ (sMem.step (.drop "m1")).2 = .nat 2 ∧
    (sCsv.step (.drop "zz")).1.storage = [p1, p2, p3] ∧ (sCsv.step (.drop "zz")).2 = .nat 0 ∧
    (sCsv.step .removeAll).1.index.valid = true ∧ (sCsv.step .removeAll).1.index.numItems = 0 ∧
    (sMem.step .removeAll).1.index.valid = false := by decide +kernel

/-! ### `remove_nothing_is_identity` -/
theorem witness_nothing_matches :
    (∀ p ∈ sCsv.storage, selected qNope none p = false) ∧
    (∀ p ∈ sMem.storage, selected qX (some "m3") p = false) := by decide +kernel
example : (sCsv.step (.remove qNope none)).1.storage = sCsv.storage ∧ (sCsv.step (.remove qNope none)).2 = .nat 0 :=
  remove_nothing_is_identity sCsv witness_inv_csv qNope none noneOK witness_nothing_matches.1
example :
    (sMem.step (.remove qX (some "m3"))).1.storage = sMem.storage ∧ (sMem.step (.remove qX (some "m3"))).2 = .nat 0 :=
  remove_nothing_is_identity sMem witness_inv_mem qX (some "m3") (mOK "m3") witness_nothing_matches.2
/-- … whereas the hypothesis fails for the queries above, which do match -/
theorem witness_something_matches : ¬ ∀ p ∈ sCsv.storage, selected qY none p = false := by decide +kernel

/-! ### `survivors_sublist` -/
example :
    (sCsv.step (.remove qY none)).1.storage.Sublist sCsv.storage ∧
    ∀ p ∈ sCsv.storage, selected qY none p = false → p ∈ (sCsv.step (.remove qY none)).1.storage :=
  survivors_sublist sCsv witness_inv_csv qY none noneOK
example : p3 ∈ (sMem.step (.remove qY none)).1.storage :=
  (survivors_sublist sMem witness_inv_mem qY none noneOK).2 p3 (by decide +kernel) (by decide +kernel)

/-! ### `reads_after_remove` -/
example :
    ((sCsv.step (.remove qY none)).1.step (.search qX (some "m2") true)).2 =
      .points (Spec.search (sCsv.storage.filter (fun p => !selected qY none p)) qX (some "m2") true) :=
  reads_after_remove sCsv witness_inv_csv qY qX none (some "m2") true noneOK (mOK "m2")
example :
    ((sMem.step (.remove qX (some "m1"))).1.step (.search qNG none false)).2 =
      .points (Spec.search (sMem.storage.filter (fun p => !selected qX (some "m1") p)) qNG none false) :=
  reads_after_remove sMem witness_inv_mem qX qNG (some "m1") none false (mOK "m1") noneOK
/-- the read that follows is served from the renumbered index and finds `p3` at its new position -/
theorem witness_reads_after_value :
    ((sCsv.step (.remove qY none)).1.step (.search qX (some "m2") false)).2 = .points [p3] ∧
    ((sCsv.step (.remove qY none)).1.step (.count qX none)).2 = .nat 2 ∧
    ((sCsv.step (.remove qY none)).1.step (.count qY none)).2 = .nat 0 ∧
    ((sMem.step (.remove qX (some "m1"))).1.step (.search qNG none false)).2 = .points [p3] := by decide +kernel
theorem witness_reads_after_sorted_value :
    ((sCsv.step (.remove qY none)).1.step (.search qX none true)).2 = .points [p1, p3] := by
  rw [reads_after_remove sCsv witness_inv_csv qY qX none none true noneOK noneOK]
  have h : (sCsv.storage.filter (fun p => !selected qY none p)).filter (selected qX none) = [p1, p3] := by
    decide +kernel
  simp only [Spec.search, h, if_true, byTime]
  simp [List.mergeSort, List.MergeSort.Internal.splitInTwo, p1, p3]

end TinyFlux.Props.C02
