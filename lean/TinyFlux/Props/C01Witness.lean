import TinyFlux.Props.C01
import TinyFlux.Model.Codec
/-!
# C01 — non-vacuity witnesses

The hypotheses of the theorems of `Props/C01.lean` (`Inv s`, `OpsOK cfg ops`, `m ≠ some ""`) are jointly
satisfiable by concrete, non-trivial states, and the conclusions then say something concrete: every main
theorem is instantiated at a three-point database under a CSV configuration (automatic index, the real
row round trip as `norm`) and a memory configuration (no automatic index), with all hypotheses
discharged, and the resulting values are computed by kernel evaluation (`decide +kernel`).
-/
namespace TinyFlux.Props.C01
open TinyFlux.Spec TinyFlux.Model

/-! ## the two configurations

`memCfg`: `MemoryStorage` (`norm = id`), here with automatic indexing off, so every answer below comes from
the scan path over an invalid index. `csvCfg`: `CSVStorage` with automatic indexing on; `norm` is the actual
row round trip `deserialize ∘ serialize` of `Model/Codec.lean` over a concrete codec pair (`wfc`, `wtc`:
the `float`/`datetime` text conversions are parameters of the model; any lawful pair will do, these two
are small enough for the kernel to run). A row that does not decode would come back as the junk point. -/

/-- text of a rational: sign letter, numerator in unary, `/`, denominator in unary (never a digit string) -/
def encQ (q : Rat) : Codec.Str :=
  (if q.num < 0 then 'm' else 'q') :: (List.replicate q.num.natAbs 'i' ++ '/' :: List.replicate q.den 'i')

def wfc : Codec.FieldCodec where
  repr
    | .ninf => ['n'] | .pinf => ['p'] | .fin q => encQ q
  parse
    | ['n'] => some .ninf
    | ['p'] => some .pinf
    | 'q' :: r => some (.fin (mkRat (r.takeWhile (· == 'i')).length ((r.dropWhile (· == 'i')).drop 1).length))
    | 'm' :: r => some (.fin (mkRat (-((r.takeWhile (· == 'i')).length : Int)) ((r.dropWhile (· == 'i')).drop 1).length))
    | _ => none

def wtc : Codec.TimeCodec where
  iso | .ofNat n => 'T' :: List.replicate n 'i' | .negSucc n => 'U' :: List.replicate n 'i'
  fromIso | 'T' :: r => some (Int.ofNat r.length) | 'U' :: r => some (Int.negSucc r.length) | _ => none

def csvNorm (p : Point) : Point :=
  match Codec.deserialize wfc wtc (Codec.serialize wfc wtc false p) with
  | some q => q
  | none => ⟨0, "", [], []⟩

def csvCfg : Cfg := { autoIndex := true, norm := csvNorm }
def memCfg : Cfg := { autoIndex := false, norm := id }

/-! ## three points in two measurements: a `None` tag value, a `None` field value, a non-integer field
value, and a tie in time (`p2`, `p3`) -/

def p1 : Point := ⟨10, "m1", [("a", some "x"), ("b", none)], [("f", some (.fin 2))]⟩
def p2 : Point := ⟨20, "m1", [("a", some "y")], [("f", some (.fin 7)), ("g", none)]⟩
def p3 : Point := ⟨20, "m2", [("a", some "x")], [("f", some (.fin (5 / 2)))]⟩

/-- the history that builds the state: an `insert_multiple`, then an `insert` -/
def ops0 : List Op := [.insert [some p1, some p2] none, .insert [some p3] none]

def sCsv : State := (runM (init csvCfg) ops0).1
def sMem : State := (runM (init memCfg) ops0).1

/-! ## the hypotheses hold: `Good`, `OpsOK`, `Inv` -/

/-- the three points survive the CSV round trip unchanged (the kernel runs the codec) -/
theorem witness_good_csv : Good csvCfg p1 ∧ Good csvCfg p2 ∧ Good csvCfg p3 :=
  ⟨⟨⟨by decide, by decide⟩, by decide +kernel⟩, ⟨⟨by decide, by decide⟩, by decide +kernel⟩,
   ⟨⟨by decide, by decide⟩, by decide +kernel⟩⟩

theorem witness_good_mem : Good memCfg p1 ∧ Good memCfg p2 ∧ Good memCfg p3 :=
  ⟨⟨⟨by decide, by decide⟩, rfl⟩, ⟨⟨by decide, by decide⟩, rfl⟩, ⟨⟨by decide, by decide⟩, rfl⟩⟩

/-- … and the round trip is not the identity: a tag value `"_none"` comes back as `None`, so not every
    point is `Good` for `csvCfg` -/
theorem witness_csv_norm_not_id : ¬ Good csvCfg ⟨10, "m1", [("a", some "_none")], []⟩ := by
  intro h
  exact absurd h.2 (by decide +kernel)

theorem witness_opsOK_csv : OpsOK csvCfg ops0 := by
  intro op hop
  simp only [ops0, List.mem_cons, List.not_mem_nil, or_false] at hop
  rcases hop with rfl | rfl
  · refine ⟨?_, by simp [MeasOK]⟩
    intro p hp
    simp only [List.mem_cons, Option.some.injEq, List.not_mem_nil, or_false] at hp
    rcases hp with rfl | rfl
    · exact witness_good_csv.1
    · exact witness_good_csv.2.1
  · refine ⟨?_, by simp [MeasOK]⟩
    intro p hp
    simp only [List.mem_cons, Option.some.injEq, List.not_mem_nil, or_false] at hp
    subst hp
    exact witness_good_csv.2.2

theorem witness_opsOK_mem : OpsOK memCfg ops0 := by
  intro op hop
  simp only [ops0, List.mem_cons, List.not_mem_nil, or_false] at hop
  rcases hop with rfl | rfl
  · refine ⟨?_, by simp [MeasOK]⟩
    intro p hp
    simp only [List.mem_cons, Option.some.injEq, List.not_mem_nil, or_false] at hp
    rcases hp with rfl | rfl
    · exact witness_good_mem.1
    · exact witness_good_mem.2.1
  · refine ⟨?_, by simp [MeasOK]⟩
    intro p hp
    simp only [List.mem_cons, Option.some.injEq, List.not_mem_nil, or_false] at hp
    subst hp
    exact witness_good_mem.2.2

/-- `Inv` of both states, through the reachability theorem -/
theorem witness_inv_csv : Inv sCsv := (reachable csvCfg ops0 witness_opsOK_csv).1
theorem witness_inv_mem : Inv sMem := (reachable memCfg ops0 witness_opsOK_mem).1

/-- the states are not trivial: three stored points; the CSV state has a valid, populated index (so
    `Inv.rep` says something), the memory state an invalidated one (so answers come from scanning) -/
theorem witness_state_csv :
    sCsv.storage = [p1, p2, p3] ∧ sCsv.storage.length = 3 ∧ sCsv.index.valid = true ∧
    sCsv.index.numItems = 3 ∧ sCsv.index.ts = [10, 20, 20] ∧ sCsv.index.pos = [0, 1, 2] ∧
    sCsv.cfg.autoIndex = true := by decide +kernel
theorem witness_state_mem :
    sMem.storage = [p1, p2, p3] ∧ sMem.storage.length = 3 ∧ sMem.index.valid = false ∧
    sMem.cfg.autoIndex = false := by decide +kernel
theorem witness_rep_csv : Represents sCsv.index sCsv.storage := witness_inv_csv.rep witness_state_csv.2.2.1

/-- no measurement filter used below is the empty string -/
theorem mOK (s : String) (h : s ≠ "" := by decide) : (some s : Option String) ≠ some "" := by
  intro e; exact h (Option.some.inj e)
theorem noneOK : (none : Option String) ≠ some "" := by simp

/-! ## C01: the main theorems at these states -/

/-- `tag a == "x"  &  ~(field f > 5)` — the negated field leaf makes the query inexact, so also the
    indexed state answers it by scanning -/
def qA : Query := .and (.tag "a" (.cmp .eq (.str "x"))) (.not (.field "f" (.cmp .gt (.num (.fin 5)))))
/-- `~(tag a == "x")  |  time < 15` — exact: the indexed state answers it from the index -/
def qB : Query := .or (.not (.tag "a" (.cmp .eq (.str "x")))) (.time (.cmp .lt (.time 15)))

theorem witness_paths : exact qA = false ∧ exact qB = true := by decide

/-! ### `search_refines` -/
example : (sCsv.step (.search qA none false)).2 = .points (Spec.search sCsv.storage qA none false) :=
  search_refines sCsv witness_inv_csv qA none false noneOK
example : (sMem.step (.search qB (some "m1") true)).2 = .points (Spec.search sMem.storage qB (some "m1") true) :=
  search_refines sMem witness_inv_mem qB (some "m1") true (mOK "m1")
/-- what that says here: `p1` and `p3` carry `a = x` and a value of `f` that is not above 5; `p2` does not -/
theorem witness_search_value :
    Spec.search sCsv.storage qA none false = [p1, p3] ∧
    (sCsv.step (.search qA none false)).2 = .points [p1, p3] ∧
    (sMem.step (.search qA none false)).2 = .points [p1, p3] ∧
    (sCsv.step (.search qB none false)).2 = .points [p1, p2] ∧
    (sMem.step (.search qB none false)).2 = .points [p1, p2] ∧
    (sCsv.step (.search qB (some "m1") false)).2 = .points [p1, p2] ∧
    (sCsv.step (.search qB (some "m2") false)).2 = .points [] := by decide +kernel

/-! ### `count_refines`, `contains_refines`, `get_refines`, `select_refines` -/
example : (sCsv.step (.count qA none)).2 = .nat (Spec.search sCsv.storage qA none false).length :=
  count_refines sCsv witness_inv_csv qA none noneOK
example : (sMem.step (.count qB (some "m1"))).2 = .nat (Spec.search sMem.storage qB (some "m1") false).length :=
  count_refines sMem witness_inv_mem qB (some "m1") (mOK "m1")
example : (sCsv.step (.contains qB (some "m2"))).2 = .bool (!(Spec.search sCsv.storage qB (some "m2") false).isEmpty) :=
  contains_refines sCsv witness_inv_csv qB (some "m2") (mOK "m2")
example : (sMem.step (.get qA none)).2 = .point (Spec.search sMem.storage qA none false).head? :=
  get_refines sMem witness_inv_mem qA none noneOK
example : (sCsv.step (.select [.time, .tag "b", .field "f"] qA none)).2 =
    .rows ((Spec.search sCsv.storage qA none false).map (project [.time, .tag "b", .field "f"])) :=
  select_refines sCsv witness_inv_csv [.time, .tag "b", .field "f"] qA none noneOK
theorem witness_count_value :
    (sCsv.step (.count qA none)).2 = .nat 2 ∧ (sMem.step (.count qA none)).2 = .nat 2 ∧
    (sCsv.step (.count qB (some "m1"))).2 = .nat 2 ∧ (sMem.step (.count qB (some "m1"))).2 = .nat 2 ∧
    (sCsv.step (.count qB (some "m2"))).2 = .nat 0 := by decide +kernel
theorem witness_contains_get_select_value :
    (sCsv.step (.contains qB (some "m2"))).2 = .bool false ∧
    (sCsv.step (.contains qA (some "m2"))).2 = .bool true ∧
    (sMem.step (.get qA none)).2 = .point (some p1) ∧
    (sCsv.step (.get qA (some "m2"))).2 = .point (some p3) ∧
    (sCsv.step (.select [.time, .tag "b", .field "f"] qA none)).2 =
      .rows [[.time 10, .none, .num (.fin 2)], [.time 20, .none, .num (.fin (5 / 2))]] := by decide +kernel

/-! ### `index_path_eq_scan_path`: the indexed CSV state and the unindexed memory state answer alike -/
example :
    (sCsv.step (.search qB none true)).2 = (sMem.step (.search qB none true)).2 ∧
    (sCsv.step (.count qB none)).2 = (sMem.step (.count qB none)).2 :=
  index_path_eq_scan_path sCsv sMem witness_inv_csv witness_inv_mem
    (witness_state_csv.1.trans witness_state_mem.1.symm) qB none true noneOK

/-! ### `unsorted_is_insertion_order`, `sorted_is_stable_time_order` (Spec level) on a database that is
not in time order: `p0` (time 5) inserted last -/
def p0 : Point := ⟨5, "m2", [("a", none)], [("g", some (.fin 1))]⟩
def db4 : DB := [p1, p2, p3, p0]

example : (Spec.search db4 qB none false).Sublist db4 ∧
    ∀ p, p ∈ Spec.search db4 qB none false ↔ p ∈ db4 ∧ selected qB none p = true :=
  unsorted_is_insertion_order db4 qB none
example : (Spec.search db4 qB none true).Perm (Spec.search db4 qB none false) ∧
    (Spec.search db4 qB none true).Pairwise (fun a b => a.time ≤ b.time) ∧
    ∀ t, ((Spec.search db4 qB none true).filter (fun p => p.time == t)) =
         ((Spec.search db4 qB none false).filter (fun p => p.time == t)) :=
  sorted_is_stable_time_order db4 qB none
theorem witness_unsorted_value : Spec.search db4 qB none false = [p1, p2, p0] := by decide +kernel
theorem witness_sorted_value : Spec.search db4 qB none true = [p0, p1, p2] := by
  have h : db4.filter (selected qB none) = [p1, p2, p0] := by decide +kernel
  simp only [Spec.search, h, if_true, byTime]
  simp [List.mergeSort, List.MergeSort.Internal.splitInTwo, p0, p1, p2]

/-! ### `after_any_history`: a history with an out-of-order insert, a removal and a reindex -/
def ops1 : List Op :=
  ops0 ++ [.insert [some p0] none, .remove (.tag "a" (.cmp .eq (.str "y"))) none, .reindex]

theorem witness_opsOK1 (cfg : Cfg) (h0 : OpsOK cfg ops0) (hg : Good cfg p0) : OpsOK cfg ops1 := by
  intro op hop
  simp only [ops1, List.mem_append, List.mem_cons, List.not_mem_nil, or_false] at hop
  rcases hop with hop | rfl | rfl | rfl
  · exact h0 op hop
  · refine ⟨?_, by simp [MeasOK]⟩
    intro p hp
    simp only [List.mem_cons, Option.some.injEq, List.not_mem_nil, or_false] at hp
    subst hp
    exact hg
  · exact ⟨trivial, by simp [MeasOK]⟩
  · exact ⟨trivial, trivial⟩
theorem witness_good_p0 : Good csvCfg p0 ∧ Good memCfg p0 :=
  ⟨⟨⟨by decide, by decide⟩, by decide +kernel⟩, ⟨⟨by decide, by decide⟩, rfl⟩⟩

example : ((runM (init csvCfg) ops1).1.step (.search qB none true)).2 =
    .points (Spec.search (runS [] ops1).1 qB none true) :=
  after_any_history csvCfg ops1 (witness_opsOK1 _ witness_opsOK_csv witness_good_p0.1) qB none true noneOK
example : ((runM (init memCfg) ops1).1.step (.search qA (some "m2") false)).2 =
    .points (Spec.search (runS [] ops1).1 qA (some "m2") false) :=
  after_any_history memCfg ops1 (witness_opsOK1 _ witness_opsOK_mem witness_good_p0.2) qA (some "m2") false
    (mOK "m2")
/-- `~(tag a == "x")`: exact, no time leaf -/
def qC : Query := .not (.tag "a" (.cmp .eq (.str "x")))
theorem witness_history_value :
    (runS [] ops1).1 = [p1, p3, p0] ∧ (runM (init csvCfg) ops1).1.storage = [p1, p3, p0] ∧
    (runM (init csvCfg) ops1).1.index.valid = true ∧ (runM (init memCfg) ops1).1.index.valid = true ∧
    ((runM (init csvCfg) ops1).1.step (.search qC none false)).2 = .points [p0] ∧
    ((runM (init memCfg) ops1).1.step (.search qA (some "m2") false)).2 = .points [p3] := by decide +kernel
/-- the sorted answer of the model to the query with a time leaf, computed through the theorem (the time
    arrays of a rebuilt index and the sorted result go through `mergeSort`, which the kernel does not unfold) -/
theorem witness_history_sorted_value :
    ((runM (init csvCfg) ops1).1.step (.search qB none true)).2 = .points [p0, p1] := by
  rw [after_any_history csvCfg ops1 (witness_opsOK1 _ witness_opsOK_csv witness_good_p0.1) qB none true noneOK]
  have h : (runS [] ops1).1.filter (selected qB none) = [p1, p0] := by decide +kernel
  simp only [Spec.search, h, if_true, byTime]
  simp [List.mergeSort, List.MergeSort.Internal.splitInTwo, p0, p1]

end TinyFlux.Props.C01
