import TinyFlux.Generated.Footprint
import TinyFlux.Model.Footprint
import TinyFlux.Generated.CallGraph
import TinyFlux.Model.CallGraph

/-! # C12: the state the code keeps is the state the Model has (CSV storage, database)

Over `Generated/Footprint.lean` (regenerated from the source on every run). A cache, a memo table or a flag added
to one of these classes or modules is state no theorem of this property covers: these stop checking. -/
namespace TinyFlux.Props.C12
open TinyFlux

/-- every attribute these classes assign is a component of the Model's state (`Model/Footprint.lean` says which) -/
theorem state_is_the_models_state :
    Generated.classState.lookup "storages.CSVStorage" = some Model.Footprint.csvStorage ∧
    Generated.classState.lookup "database.TinyFlux" = some Model.Footprint.tinyFlux := by decide

/-- no module-level variable, caching decorator, `global`/`nonlocal` or mutable default argument beyond the
    modelled ones; no class the Model does not know -/
theorem no_hidden_state :
    Generated.moduleState.lookup "storages" = Model.Footprint.modules.lookup "storages" ∧
    Generated.moduleState.lookup "database" = Model.Footprint.modules.lookup "database" ∧
    Generated.classState.map (·.1) = Model.Footprint.classNames := by decide

/-- every function of these classes / modules calls, catches and raises exactly what it did when the Model was
    written against it and validated (`Model/CallGraph.lean`); and there is no table the Model does not know -/
theorem code_uses_the_modelled_primitives :
    Generated.calls_storages_Storage = Model.CallGraph.calls_storages_Storage ∧
    Generated.calls_storages_CSVStorage = Model.CallGraph.calls_storages_CSVStorage ∧
    Generated.calls_storages_MemoryStorage = Model.CallGraph.calls_storages_MemoryStorage ∧
    Generated.calls_storages_toplevel = Model.CallGraph.calls_storages_toplevel ∧
    Generated.calls_database_TinyFlux = Model.CallGraph.calls_database_TinyFlux ∧
    Generated.calls_database_toplevel = Model.CallGraph.calls_database_toplevel ∧
    Generated.callGraphTables = Model.CallGraph.callGraphTables := ⟨rfl, rfl, rfl, rfl, rfl, rfl, rfl⟩

/-- the calls of every storage method are written in the order — and inside the branches, loops and handlers — in which the
    I/O model (`Model/IO.lean`, `Model/IOSteps.lean`) has them: `Generated.order_storages_*` lists, per method, the calls in
    source order with control-structure markers; two I/O calls swapped, or a call moved into or out of a branch or a
    `finally`, changes the listing (the unordered call graph above does not see that) -/
theorem storage_calls_in_the_modelled_order :
    Generated.order_storages_Storage = Model.CallGraph.order_storages_Storage ∧
    Generated.order_storages_CSVStorage = Model.CallGraph.order_storages_CSVStorage ∧
    Generated.order_storages_MemoryStorage = Model.CallGraph.order_storages_MemoryStorage := ⟨rfl, rfl, rfl⟩

end TinyFlux.Props.C12
