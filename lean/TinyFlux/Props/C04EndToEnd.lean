import TinyFlux.Lemmas.IOOps
/-! # C04, end to end: every operation of every reachable state (database model ⋈ I/O model)

`Model.opSteps s true op` are the I/O calls operation `op` makes in state `s` (the prediction the harness
compares with the recorded calls of the real code); `FileOf s fs` says the file holds exactly the stored
points of `s` with nothing buffered and no temp file. -/
namespace TinyFlux.Props.C04
open TinyFlux.Model TinyFlux.Model.IO TinyFlux.Spec

/-- after the I/O calls of any operation — also one that raises — the file holds exactly the contents the
    operation leaves -/
theorem every_operation_leaves_the_file_holding_the_contents (s : State) (hs : Inv s) (op : Op)
    (hok : OpOK s.cfg op) (hm : MeasOK op) (fs : FS Point) (hfs : FileOf s fs) :
    FileOf (s.step op).1 (IO.run fs (opSteps s true op)) :=
  op_file_holds_contents s hs op hok hm fs hfs

/-- the I/O calls of a whole history -/
def historySteps (s : State) : List Op → List (Step Point)
  | [] => []
  | op :: t => opSteps s true op ++ historySteps (s.step op).1 t

/-- … hence after every history of operations the file alone holds the current contents -/
theorem every_history_leaves_the_file_holding_the_contents (s : State) (hs : Inv s) (ops : List Op)
    (hok : OpsOK s.cfg ops) (fs : FS Point) (hfs : FileOf s fs) :
    FileOf (runM s ops).1 (IO.run fs (historySteps s ops)) := by
  induction ops generalizing s fs with
  | nil => simpa [runM, historySteps, IO.run] using hfs
  | cons op t ih =>
    have hop := hok op (List.mem_cons_self)
    have hstep := step_refines s hs op hop.1 hop.2
    have hfile := op_file_holds_contents s hs op hop.1 hop.2 fs hfs
    have hok' : OpsOK (s.step op).1.cfg t := by
      intro o ho; rw [hstep.2.2.1]; exact hok o (List.mem_cons_of_mem _ ho)
    have := ih (s.step op).1 hstep.2.2.2 hok' (IO.run fs (opSteps s true op)) hfile
    simpa [runM, historySteps, run_append] using this

end TinyFlux.Props.C04
