import TinyFlux.Model.IO
import TinyFlux.Lemmas.IOLemmas
/-!
# C04 — after every completed operation the CSV file alone holds the current contents

Protocol level: after the complete step list of an operation the rows the OS holds for the database
path are exactly the new contents (with `flush_on_insert=False`: once the handle is closed), the temp
file is gone and nothing is left buffered. Rows are abstract; that a row decodes to the point it was
written from is C05, that the temp file is written with the primary's encoding / newline mode / csv
options is checked on the recorded `mktemp`/`open` arguments and by decoding the real file with an
independent reader after every operation in every configuration.
-/
namespace TinyFlux.Props.C04
open TinyFlux.Model.IO
variable {R : Type}

theorem append_file_holds_contents (fs : FS R) (hq : Quiet fs) (rows : List R) :
    (run fs (appendSteps true rows)).primary = fs.primary ++ rows ∧ Quiet (run fs (appendSteps true rows)) := by
  obtain ⟨h1, h2, h3, h4⟩ := append_flush_full fs hq.noPend rows
  exact ⟨h1, ⟨h2, h3.trans hq.noTemp, h4.trans hq.noPendT⟩⟩

/-- without `flush_on_insert` the rows reach the file at the latest when the handle is closed, and
    already when the next read seeks -/
theorem append_unflushed_reaches_file (fs : FS R) (hq : Quiet fs) (rows : List R) :
    (run fs (appendSteps false rows ++ [.pClose])).primary = fs.primary ++ rows ∧
    (run fs (appendSteps false rows ++ scanSteps)).primary = fs.primary ++ rows := by
  have h := append_noflush_full fs rows
  simp only [afterClose, hq.noPend, List.append_nil] at h
  constructor <;> rw [run_append] <;> simp [scanSteps, exec, h]

/-- an append lands at the end of the file wherever an early-terminating read left the handle -/
theorem append_lands_at_eof (fs : FS R) (hq : Quiet fs) (rows : List R) (pos : Bool) :
    (run { fs with posEnd := pos } (appendSteps true rows)).primary = fs.primary ++ rows := by
  exact (append_flush_full { fs with posEnd := pos } hq.noPend rows).1

/-- a rewrite (remove / update) leaves exactly the new rows, in both flush modes (also when appended rows
    were still buffered in the primary handle), and no temp file -/
theorem rewrite_file_holds_contents (fs : FS R) (hq : fs.temp = none ∧ fs.pendT = []) (flush : Bool) (rows : List (Option R)) (rebuild : Bool) :
    (run fs (rewriteSteps flush rows rebuild)).primary = newRows rows ∧ Quiet (run fs (rewriteSteps flush rows rebuild)) ∧
    (run fs (rewriteSteps flush rows rebuild)).pOpen = true := by
  have _ := hq  -- holds from any state: `tCreate` resets the temp file and its buffer
  obtain ⟨h1, h2, h3, h4, h5⟩ := rewrite_full fs flush rows rebuild
  exact ⟨h1, ⟨h2, h3, h4⟩, h5⟩

theorem noop_rewrite_file_unchanged (fs : FS R) (hq : Quiet fs) (flush : Bool) (rows : List (Option R)) (scanned : Bool) :
    (run fs (noopRewriteSteps flush rows scanned)).primary = fs.primary ∧ Quiet (run fs (noopRewriteSteps flush rows scanned)) := by
  obtain ⟨h1, h2, h3, h4⟩ := noop_full fs hq.noPend flush rows scanned
  exact ⟨h1, ⟨h2, h3, h4⟩⟩

theorem reset_file_empty (fs : FS R) (hq : Quiet fs) (flush : Bool) (rows : List (Option R)) (scanned : Bool) :
    (run fs (resetSteps (R := R))).primary = [] ∧ (run fs (resetInTempSteps flush rows scanned)).primary = [] ∧
    Quiet (run fs (resetInTempSteps flush rows scanned)) := by
  have _ := hq  -- holds from any state
  obtain ⟨h1, h2, h3, h4⟩ := resetInTemp_full fs flush rows scanned
  exact ⟨by simp [resetSteps, exec], h1, ⟨h2, h3, h4⟩⟩

/-- the pinned commit's defect, as a theorem about the model: without the flush before the swap, rows
    staged with `flush_on_insert=False` are lost -/
theorem swap_without_flush_loses_rows :
    ∃ (fs : FS Nat), Quiet fs ∧
      (run fs ([.tCreate, .pSeek0, .pRead, .tSeekEnd, .tWrite 7, .pRead] ++ [.pClose, .replace, .pOpen, .tClose])).primary ≠ [7] := by
  refine ⟨{ primary := [7] }, ⟨rfl, rfl, rfl⟩, ?_⟩
  simp [exec]

end TinyFlux.Props.C04
