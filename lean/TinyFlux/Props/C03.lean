import TinyFlux.Lemmas.Refinement
import TinyFlux.Lemmas.PropsAux2
/-!
# C03 — update changes exactly the matching points, with documented merge semantics

`Spec.upd` is the documented change of one point: time and measurement replaced, tags and fields merged
key by key (`dictUpdate`), then the unset keys erased; static values are constant callables.
Guard: the measurement argument is not `""` (known finding `empty-measurement-name`);
`OpOK`: what the update produces is storable (dict-shaped and, for CSV, codable — C05).
-/
namespace TinyFlux.Props.C03
open TinyFlux.Spec TinyFlux.Model TinyFlux.Model.PropsAux2

/-- `update` / `update_all`: storage and return value are the Spec's, errors included; invariant kept -/
theorem update_refines (s : State) (hs : Inv s) (all : Bool) (q : Query) (u : Upd) (m : Option String)
    (hok : OpOK s.cfg (.update all q u m)) (hm : m ≠ some "") :
    (s.step (.update all q u m)).1.storage = (Spec.step s.storage (.update all q u m)).1 ∧
    (s.step (.update all q u m)).2 = (Spec.step s.storage (.update all q u m)).2 ∧
    Inv (s.step (.update all q u m)).1 := by
  obtain ⟨h1, h2, _, h4⟩ := step_write_refines s hs (.update all q u m) rfl hok hm
  exact ⟨h2, h1, h4⟩

/-- positions never move: the database keeps its length, and a point that is not selected is untouched -/
theorem order_untouched (db db' : DB) (u : Upd) (q : Query) (m : Option String) (n : Nat)
    (h : Spec.update db u q m = .ok (db', n)) :
    db'.length = db.length ∧
    ∀ i (hi : i < db.length) (hi' : i < db'.length), selected q m db[i] = false → db'[i] = db[i] := by
  exact update_order_untouched db db' u q m n h

/-- a selected point becomes its updated version (or stays as it is when the update changes nothing) -/
theorem selected_updated (db db' : DB) (u : Upd) (q : Query) (m : Option String) (n : Nat)
    (h : Spec.update db u q m = .ok (db', n)) :
    ∀ i (hi : i < db.length) (hi' : i < db'.length), selected q m db[i] = true →
      ∃ p', upd u db[i] = .ok p' ∧ db'[i] = (if p'.eqv db[i] then db[i] else p') := by
  obtain ⟨hmap, _⟩ := update_ok db db' u q m n h
  obtain ⟨hl, hf⟩ := mapM_ok _ db db' hmap
  intro i hi hi' hsel
  have := hf i hi hi'
  simp only [Writes.specF, hsel, if_true] at this
  cases hu : upd u db[i] with
  | error e => simp [hu, bind, Except.bind] at this
  | ok p' =>
    simp only [hu, bind, Except.bind, pure, Except.pure, Except.ok.injEq] at this
    exact ⟨p', rfl, this.symm⟩

/-- the count is the number of points whose content changed -/
theorem update_count (db db' : DB) (u : Upd) (q : Query) (m : Option String) (n : Nat)
    (h : Spec.update db u q m = .ok (db', n)) :
    n = ((List.zip db db').filter (fun pp => !(pp.1.eqv pp.2))).length := by
  obtain ⟨_, hn⟩ := update_ok db db' u q m n h
  rw [hn, List.countP_eq_length_filter]

/-- merging never drops a key -/
theorem never_drops_keys {V : Type} (d new : List (String × V)) :
    ∀ k, k ∈ d.map (·.1) → k ∈ (dictUpdate d new).map (·.1) := by
  exact PropsAux2.never_drops_keys d new

/-- merged keys carry the new value, the others keep theirs -/
theorem merge_values {V : Type} (d new : List (String × V)) (hn : (new.map (·.1)).Nodup) (k : String) :
    (dictUpdate d new).lookup k = (match new.lookup k with | some v => some v | none => d.lookup k) := by
  exact PropsAux2.merge_values d new hn k

/-- unset keys are gone afterwards, including keys set by the same call -/
theorem unset_after_set (u : Upd) (p p' : Point) (h : upd u p = .ok p') :
    (∀ k ∈ u.unsetTags, p'.tags.lookup k = none) ∧ (∀ k ∈ u.unsetFields, p'.fields.lookup k = none) := by
  obtain ⟨tg, fl, ht, hf⟩ := upd_ok u p p' h
  rw [ht, hf]
  exact ⟨fun k hk => lookup_eraseKeys tg _ k hk, fun k hk => lookup_eraseKeys fl _ k hk⟩

/-- `update_all` is `update` with the query that is always true -/
theorem update_all_is_update_noop (db : DB) (q : Query) (u : Upd) (m : Option String) :
    Spec.step db (.update true q u m) = Spec.step db (.update false .noop u m) := by
  simp [Spec.step]

end TinyFlux.Props.C03
