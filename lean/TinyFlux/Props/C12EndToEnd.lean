import TinyFlux.Lemmas.IOOps
/-! # C12, end to end (database model ⋈ I/O model) -/
namespace TinyFlux.Props.C12
open TinyFlux.Model TinyFlux.Model.IO TinyFlux.Spec

/-- for every reachable state and every operation, if the process dies between any two of the operation's
    I/O calls, the file holds the contents before the operation or the contents after it; for an insert, the
    old contents plus a prefix of the new rows -/
theorem every_operation_is_crash_atomic (s : State) (hs : Inv s) (op : Op)
    (hok : OpOK s.cfg op) (hm : MeasOK op) (fs : FS Point) (hfs : FileOf s fs) (k : Nat) :
    afterCrash (run fs ((opSteps s true op).take k)) = s.storage ∨
    afterCrash (run fs ((opSteps s true op).take k)) = (s.step op).1.storage ∨
    ∃ pts m j, op = .insert pts m ∧
      afterCrash (run fs ((opSteps s true op).take k)) = s.storage ++ (insertedRows s.cfg m pts).take j :=
  op_crash_atomic s hs op hok hm fs hfs k

end TinyFlux.Props.C12
