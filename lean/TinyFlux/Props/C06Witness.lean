import TinyFlux.Props.C06
import TinyFlux.Model.Codec
/-!
# C06 — non-vacuity witnesses

The hypotheses of the theorems of `Props/C06.lean` (`OpsOK cfg ops`, `Inv s`, `Represents i l`, `WFPoint`,
`exact q`, `s.index.valid`, `s.cfg.autoIndex`, the order hypotheses of the two insert theorems) are jointly
satisfiable by concrete, non-trivial states, and the conclusions then say something concrete: every main
theorem is instantiated under a CSV configuration (automatic index, the real row round trip as `norm`) and
a memory configuration (no automatic index) — the reachability theorem at a history with an
`insert_multiple` that raises half-way, an out-of-order insert, a removal and a reindex — with all
hypotheses discharged, and the resulting values are computed (`decide +kernel`).
(`reset_clears_every_attribute` has no hypotheses.)
-/
namespace TinyFlux.Props.C06
open TinyFlux.Spec TinyFlux.Model

/-! ## the two configurations

`memCfg`: `MemoryStorage` (`norm = id`), here with automatic indexing off, so every answer below comes from
the scan path over an invalid index. `csvCfg`: `CSVStorage` with automatic indexing on; `norm` is the actual
row round trip `deserialize ∘ serialize` of `Model/Codec.lean` over a concrete codec pair (`wfc`, `wtc`:
the `float`/`datetime` text conversions are parameters of the model; any lawful pair will do, these two
are small enough for the kernel to run). A row that does not decode would come back as the junk point. -/

/-- text of a rational: sign letter, numerator in unary, `/`, denominator in unary (never a digit string) -/
def encQ (q : Rat) : Codec.Str :=
  (if q.num < 0 then 'm' else 'q') :: (List.replicate q.num.natAbs 'i' ++ '/' :: List.replicate q.den 'i')

def wfc : Codec.FieldCodec where
  repr
    | .ninf => ['n'] | .pinf => ['p'] | .fin q => encQ q
  parse
    | ['n'] => some .ninf
    | ['p'] => some .pinf
    | 'q' :: r => some (.fin (mkRat (r.takeWhile (· == 'i')).length ((r.dropWhile (· == 'i')).drop 1).length))
    | 'm' :: r => some (.fin (mkRat (-((r.takeWhile (· == 'i')).length : Int)) ((r.dropWhile (· == 'i')).drop 1).length))
    | _ => none

def wtc : Codec.TimeCodec where
  iso | .ofNat n => 'T' :: List.replicate n 'i' | .negSucc n => 'U' :: List.replicate n 'i'
  fromIso | 'T' :: r => some (Int.ofNat r.length) | 'U' :: r => some (Int.negSucc r.length) | _ => none

def csvNorm (p : Point) : Point :=
  match Codec.deserialize wfc wtc (Codec.serialize wfc wtc false p) with
  | some q => q
  | none => ⟨0, "", [], []⟩

def csvCfg : Cfg := { autoIndex := true, norm := csvNorm }
def memCfg : Cfg := { autoIndex := false, norm := id }

/-! ## three points in two measurements: a `None` tag value, a `None` field value, a non-integer field
value, and a tie in time (`p2`, `p3`) -/

def p1 : Point := ⟨10, "m1", [("a", some "x"), ("b", none)], [("f", some (.fin 2))]⟩
def p2 : Point := ⟨20, "m1", [("a", some "y")], [("f", some (.fin 7)), ("g", none)]⟩
def p3 : Point := ⟨20, "m2", [("a", some "x")], [("f", some (.fin (5 / 2)))]⟩

/-- the history that builds the state: an `insert_multiple`, then an `insert` -/
def ops0 : List Op := [.insert [some p1, some p2] none, .insert [some p3] none]

def sCsv : State := (runM (init csvCfg) ops0).1
def sMem : State := (runM (init memCfg) ops0).1

/-! ## the hypotheses hold: `Good`, `OpsOK`, `Inv` -/

/-- the three points survive the CSV round trip unchanged (the kernel runs the codec) -/
theorem witness_good_csv : Good csvCfg p1 ∧ Good csvCfg p2 ∧ Good csvCfg p3 :=
  ⟨⟨⟨by decide, by decide⟩, by decide +kernel⟩, ⟨⟨by decide, by decide⟩, by decide +kernel⟩,
   ⟨⟨by decide, by decide⟩, by decide +kernel⟩⟩

theorem witness_good_mem : Good memCfg p1 ∧ Good memCfg p2 ∧ Good memCfg p3 :=
  ⟨⟨⟨by decide, by decide⟩, rfl⟩, ⟨⟨by decide, by decide⟩, rfl⟩, ⟨⟨by decide, by decide⟩, rfl⟩⟩

/-- … and the round trip is not the identity: a tag value `"_none"` comes back as `None`, so not every
    point is `Good` for `csvCfg` -/
theorem witness_csv_norm_not_id : ¬ Good csvCfg ⟨10, "m1", [("a", some "_none")], []⟩ := by
  intro h
  exact absurd h.2 (by decide +kernel)

theorem witness_opsOK_csv : OpsOK csvCfg ops0 := by
  intro op hop
  simp only [ops0, List.mem_cons, List.not_mem_nil, or_false] at hop
  rcases hop with rfl | rfl
  · refine ⟨?_, by simp [MeasOK]⟩
    intro p hp
    simp only [List.mem_cons, Option.some.injEq, List.not_mem_nil, or_false] at hp
    rcases hp with rfl | rfl
    · exact witness_good_csv.1
    · exact witness_good_csv.2.1
  · refine ⟨?_, by simp [MeasOK]⟩
    intro p hp
    simp only [List.mem_cons, Option.some.injEq, List.not_mem_nil, or_false] at hp
    subst hp
    exact witness_good_csv.2.2

theorem witness_opsOK_mem : OpsOK memCfg ops0 := by
  intro op hop
  simp only [ops0, List.mem_cons, List.not_mem_nil, or_false] at hop
  rcases hop with rfl | rfl
  · refine ⟨?_, by simp [MeasOK]⟩
    intro p hp
    simp only [List.mem_cons, Option.some.injEq, List.not_mem_nil, or_false] at hp
    rcases hp with rfl | rfl
    · exact witness_good_mem.1
    · exact witness_good_mem.2.1
  · refine ⟨?_, by simp [MeasOK]⟩
    intro p hp
    simp only [List.mem_cons, Option.some.injEq, List.not_mem_nil, or_false] at hp
    subst hp
    exact witness_good_mem.2.2

/-- `Inv` of both states, through the reachability theorem -/
theorem witness_inv_csv : Inv sCsv := (reachable csvCfg ops0 witness_opsOK_csv).1
theorem witness_inv_mem : Inv sMem := (reachable memCfg ops0 witness_opsOK_mem).1

/-- the states are not trivial: three stored points; the CSV state has a valid, populated index (so
    `Inv.rep` says something), the memory state an invalidated one (so answers come from scanning) -/
theorem witness_state_csv :
    sCsv.storage = [p1, p2, p3] ∧ sCsv.storage.length = 3 ∧ sCsv.index.valid = true ∧
    sCsv.index.numItems = 3 ∧ sCsv.index.ts = [10, 20, 20] ∧ sCsv.index.pos = [0, 1, 2] ∧
    sCsv.cfg.autoIndex = true := by decide +kernel
theorem witness_state_mem :
    sMem.storage = [p1, p2, p3] ∧ sMem.storage.length = 3 ∧ sMem.index.valid = false ∧
    sMem.cfg.autoIndex = false := by decide +kernel
theorem witness_rep_csv : Represents sCsv.index sCsv.storage := witness_inv_csv.rep witness_state_csv.2.2.1

/-- no measurement filter used below is the empty string -/
theorem mOK (s : String) (h : s ≠ "" := by decide) : (some s : Option String) ≠ some "" := by
  intro e; exact h (Option.some.inj e)
theorem noneOK : (none : Option String) ≠ some "" := by simp

/-! ## C06: the main theorems at these states -/

-- to let the kernel compare `Index.search` results, which live in `Except`
deriving instance DecidableEq for Except

/-- earlier than everything stored: inserting it is out of order -/
def p0 : Point := ⟨5, "m2", [("a", none)], [("g", some (.fin 1))]⟩
/-- later than everything stored -/
def p4 : Point := ⟨30, "m1", [("c", some "w")], []⟩

theorem witness_good_p0 : Good csvCfg p0 ∧ Good memCfg p0 :=
  ⟨⟨⟨by decide, by decide⟩, by decide +kernel⟩, ⟨⟨by decide, by decide⟩, rfl⟩⟩
theorem witness_good_p4 : Good csvCfg p4 ∧ Good memCfg p4 :=
  ⟨⟨⟨by decide, by decide⟩, by decide +kernel⟩, ⟨⟨by decide, by decide⟩, rfl⟩⟩

/-- `tag a == "y"`: matches `p2` -/
def qY : Query := .tag "a" (.cmp .eq (.str "y"))
/-- `~(tag a == "x")  |  time < 15` (exact, with a time leaf) -/
def qB : Query := .or (.not (.tag "a" (.cmp .eq (.str "x")))) (.time (.cmp .lt (.time 15)))
/-- `~(tag a == "x")  |  field g exists` (exact, no time leaf) -/
def qC : Query := .or (.not (.tag "a" (.cmp .eq (.str "x")))) (.field "g" .exists)

/-! ### `inv_reachable`: a history with an out-of-order `insert_multiple` that also raises (a non-Point
in second position), a removal, and a reindex -/
def ops6 : List Op := ops0 ++ [.insert [some p0, none] none, .remove qY none, .reindex]

theorem witness_opsOK6 (cfg : Cfg) (h0 : OpsOK cfg ops0) (hg : Good cfg p0) : OpsOK cfg ops6 := by
  intro op hop
  simp only [ops6, List.mem_append, List.mem_cons, List.not_mem_nil, or_false] at hop
  rcases hop with hop | rfl | rfl | rfl
  · exact h0 op hop
  · refine ⟨?_, by simp [MeasOK]⟩
    intro p hp
    simp only [List.mem_cons, Option.some.injEq, List.not_mem_nil, or_false, reduceCtorEq] at hp
    subst hp
    exact hg
  · exact ⟨trivial, by simp [MeasOK]⟩
  · exact ⟨trivial, trivial⟩

def s6Csv : State := (runM (init csvCfg) ops6).1
def s6Mem : State := (runM (init memCfg) ops6).1

theorem witness_inv6_csv : Inv s6Csv := inv_reachable csvCfg ops6 (witness_opsOK6 _ witness_opsOK_csv witness_good_p0.1)
theorem witness_inv6_mem : Inv s6Mem := inv_reachable memCfg ops6 (witness_opsOK6 _ witness_opsOK_mem witness_good_p0.2)
/-- what happened along the way: the third call raised after storing `p0` and invalidated the index, the
    removal rebuilt it (CSV, automatic) and took `p2` out; at the end both indexes are valid -/
theorem witness_history_value :
    (runM (init csvCfg) ops6).2 = [.nat 2, .nat 1, .err .type, .nat 1, .unit] ∧
    (runM (init memCfg) ops6).2 = [.nat 2, .nat 1, .err .type, .nat 1, .unit] ∧
    (runM (init csvCfg) (ops0 ++ [.insert [some p0, none] none])).1.index.valid = false ∧
    s6Csv.storage = [p1, p3, p0] ∧ s6Csv.index.valid = true ∧ s6Csv.index.numItems = 3 ∧
    s6Csv.index.measItems "m2" = [1, 2] ∧
    s6Mem.storage = [p1, p3, p0] ∧ s6Mem.index.valid = true ∧ s6Mem.index.numItems = 3 := by decide +kernel
/-- so `Inv.rep` is not vacuous there -/
theorem witness_rep6 : Represents s6Csv.index s6Csv.storage ∧ Represents s6Mem.index s6Mem.storage :=
  ⟨witness_inv6_csv.rep witness_history_value.2.2.2.2.1, witness_inv6_mem.rep witness_history_value.2.2.2.2.2.2.2.2.1⟩

/-! ### `inv_reopen` -/
example : Inv (reopen s6Csv) := inv_reopen s6Csv witness_inv6_csv
example : Inv (reopen sMem) := inv_reopen sMem witness_inv_mem
theorem witness_reopen_value :
    (reopen s6Csv).index.valid = true ∧ (reopen s6Csv).storage = [p1, p3, p0] ∧
    (reopen sMem).index.valid = false ∧ (reopen sMem).storage = [p1, p2, p3] := by decide +kernel

/-! ### `build_represents`, `search_answers_eq`, `getter_answers_eq`: the index grown insert by insert and
the one rebuilt from storage -/
theorem witness_wf : ∀ p ∈ sCsv.storage, WFPoint p := fun p hp => (witness_inv_csv.good p hp).1

example : Represents (Index.build sCsv.storage) sCsv.storage := build_represents sCsv.storage witness_wf
example : ∃ r r', sCsv.index.search qB = .ok r ∧ (Index.build sCsv.storage).search qB = .ok r' ∧ r.Perm r' :=
  search_answers_eq sCsv.index (Index.build sCsv.storage) sCsv.storage witness_rep_csv
    (build_represents sCsv.storage witness_wf) witness_wf qB (by decide)
example :
    sCsv.index.numItems = (Index.build sCsv.storage).numItems ∧
    sCsv.index.getMeasurements.Perm (Index.build sCsv.storage).getMeasurements ∧
    (sCsv.index.getTagKeys (some "m1")).Perm ((Index.build sCsv.storage).getTagKeys (some "m1")) ∧
    (sCsv.index.getFieldKeys (some "m1")).Perm ((Index.build sCsv.storage).getFieldKeys (some "m1")) ∧
    sCsv.index.getFieldValues "f" (some "m1") = (Index.build sCsv.storage).getFieldValues "f" (some "m1") ∧
    sCsv.index.getTimestamps (some "m1") = (Index.build sCsv.storage).getTimestamps (some "m1") ∧
    (∀ name, (sCsv.index.measItems name).length = ((Index.build sCsv.storage).measItems name).length) :=
  getter_answers_eq sCsv.index (Index.build sCsv.storage) sCsv.storage witness_rep_csv
    (build_represents sCsv.storage witness_wf) witness_wf "f" (some "m1")
theorem witness_index_answers_value :
    sCsv.index.search qB = .ok [1, 0] ∧ sCsv.index.search qC = .ok [1] ∧
    (Index.build sCsv.storage).search qC = .ok [1] ∧
    sCsv.index.getFieldValues "f" (some "m1") = [some (.fin 2), some (.fin 7)] ∧
    (Index.build sCsv.storage).getFieldValues "f" (some "m1") = [some (.fin 2), some (.fin 7)] ∧
    sCsv.index.getTagKeys (some "m1") = ["b", "a"] ∧ (Index.build sCsv.storage).getTagKeys (some "m1") = ["b", "a"] ∧
    sCsv.index.getMeasurements = ["m1", "m2"] := by decide +kernel

/-! ### `answers_eq_rebuild` at the state reached by the history above -/
example : ∃ r r', s6Csv.index.search qB = .ok r ∧ (Index.build s6Csv.storage).search qB = .ok r' ∧ r.Perm r' :=
  answers_eq_rebuild s6Csv witness_inv6_csv witness_history_value.2.2.2.2.1 qB (by decide)
example : ∃ r r', s6Mem.index.search qC = .ok r ∧ (Index.build s6Mem.storage).search qC = .ok r' ∧ r.Perm r' :=
  answers_eq_rebuild s6Mem witness_inv6_mem witness_history_value.2.2.2.2.2.2.2.2.1 qC (by decide)
theorem witness_rebuild_value :
    s6Csv.index.search qC = .ok [2] ∧ (Index.build s6Csv.storage).search qC = .ok [2] ∧
    s6Mem.index.search qC = .ok [2] := by decide +kernel

/-! ### `inorder_insert_keeps_valid`, `out_of_order_only_invalidates` -/
theorem witness_opOK_insert (p : Point) (hg : Good csvCfg p) : OpOK sCsv.cfg (.insert [some p] none) := by
  intro q hq
  simp only [List.mem_cons, Option.some.injEq, List.not_mem_nil, or_false] at hq
  subst hq
  exact hg

example : (sCsv.step (.insert [some p4] none)).1.index.valid = true :=
  inorder_insert_keeps_valid sCsv witness_inv_csv witness_state_csv.2.2.1 witness_state_csv.2.2.2.2.2.2
    p4 none (witness_opOK_insert p4 witness_good_p4.1) (by decide +kernel)
example :
    (sCsv.step (.insert [some p0] none)).1.index.valid = false ∧
    (sCsv.step (.insert [some p0] none)).1.storage = sCsv.storage ++ [p0] :=
  out_of_order_only_invalidates sCsv witness_inv_csv witness_state_csv.2.2.1 witness_state_csv.2.2.2.2.2.2
    p0 (witness_opOK_insert p0 witness_good_p0.1) ⟨p1, by decide +kernel, by decide⟩
/-- the order hypotheses are what separates the two: each fails for the other point -/
theorem witness_order_hyps :
    (∀ q ∈ sCsv.storage, q.time ≤ p4.time) ∧ ¬ (∀ q ∈ sCsv.storage, q.time ≤ p0.time) := by decide +kernel
theorem witness_insert_value :
    (sCsv.step (.insert [some p4] none)).1.index.valid = true ∧
    (sCsv.step (.insert [some p4] none)).1.index.ts = [10, 20, 20, 30] ∧
    (sCsv.step (.insert [some p4] none)).1.index.pos = [0, 1, 2, 3] ∧
    (sCsv.step (.insert [some p4] none)).1.storage = [p1, p2, p3, p4] ∧
    (sCsv.step (.insert [some p0] none)).1.index.valid = false ∧
    (sCsv.step (.insert [some p0] none)).1.index.numItems = 0 ∧
    (sCsv.step (.insert [some p0] none)).1.storage = [p1, p2, p3, p0] := by decide +kernel

/-! ### `read_leaves_valid`: at the state after the out-of-order insert (index invalid) and at `sCsv` -/
def sOoo : State := (runM (init csvCfg) (ops0 ++ [.insert [some p0] none])).1

theorem witness_inv_ooo : Inv sOoo := by
  refine inv_reachable csvCfg _ ?_
  intro op hop
  simp only [List.mem_append, List.mem_cons, List.not_mem_nil, or_false] at hop
  rcases hop with hop | rfl
  · exact witness_opsOK_csv op hop
  · exact ⟨witness_opOK_insert p0 witness_good_p0.1, by simp [MeasOK]⟩

example : sOoo.readOp.index.valid = true ∧ (sOoo.index.valid = true → sOoo.readOp = sOoo) :=
  read_leaves_valid sOoo witness_inv_ooo (by decide +kernel)
example : sCsv.readOp = sCsv :=
  (read_leaves_valid sCsv witness_inv_csv witness_state_csv.2.2.2.2.2.2).2 witness_state_csv.2.2.1
theorem witness_readOp_value :
    sOoo.index.valid = false ∧ sOoo.storage = [p1, p2, p3, p0] ∧ sOoo.readOp.index.valid = true ∧
    sOoo.readOp.index.numItems = 4 ∧ sOoo.readOp.index.measItems "m2" = [2, 3] := by decide +kernel

/-! ### `read_op_keeps_valid_index` -/
example : (sCsv.step (.count qB (some "m1"))).1.index = sCsv.index :=
  read_op_keeps_valid_index sCsv witness_inv_csv (.count qB (some "m1")) rfl (mOK "m1") witness_state_csv.2.2.1
example : (s6Mem.step (.getTagValues ["a"] none)).1.index = s6Mem.index :=
  read_op_keeps_valid_index s6Mem witness_inv6_mem (.getTagValues ["a"] none) rfl noneOK
    witness_history_value.2.2.2.2.2.2.2.2.1

end TinyFlux.Props.C06
