import TinyFlux.Lemmas.Refinement
import TinyFlux.Lemmas.PropsAux2
/-!
# C11 — an operation that raises leaves the database as it was, and still usable

Raising operations in the model: a non-Point element inside `insert_multiple` (`none` in the point
list), an update whose argument validation fails (nothing given), an update callable that raises or
returns an invalid value on some selected point (`upd u p = .error _`).
"Still usable": the state after the failed call satisfies the invariant, so every theorem of
C01–C07 applies to every history that continues from it.
-/
namespace TinyFlux.Props.C11
open TinyFlux.Spec TinyFlux.Model TinyFlux.Model.PropsAux2

/-- a failed `insert_multiple` has stored exactly the points before the offending element -/
theorem insert_error_preserves (s : State) (hs : Inv s) (pts : List (Option Point)) (m : Option String)
    (hok : OpOK s.cfg (.insert pts m)) (hm : m ≠ some "") (e : Err)
    (herr : (s.step (.insert pts m)).2 = .err e) :
    e = .type ∧
    (s.step (.insert pts m)).1.storage = s.storage ++ (insertPrefix m pts).1 ∧
    (insertPrefix m pts).2 = true ∧
    Inv (s.step (.insert pts m)).1 := by
  obtain ⟨h1, h2, _, h4⟩ := step_write_refines s hs (.insert pts m) rfl hok hm
  rw [h1] at herr
  rw [h2]
  have hstep : Spec.step s.storage (.insert pts m) =
      (s.storage ++ (insertPrefix m pts).1,
        if (insertPrefix m pts).2 then .err .type else .nat (insertPrefix m pts).1.length) := rfl
  rw [hstep] at herr ⊢
  cases hb : (insertPrefix m pts).2 with
  | false => simp [hb] at herr
  | true =>
    simp only [hb, if_true, Out.err.injEq] at herr
    exact ⟨herr.symm, rfl, rfl, h4⟩

/-- a failed `update` / `update_all` leaves the stored contents exactly as they were -/
theorem update_error_preserves (s : State) (hs : Inv s) (all : Bool) (q : Query) (u : Upd) (m : Option String)
    (hok : OpOK s.cfg (.update all q u m)) (hm : m ≠ some "") (e : Err)
    (herr : (s.step (.update all q u m)).2 = .err e) :
    (s.step (.update all q u m)).1.storage = s.storage ∧ Inv (s.step (.update all q u m)).1 := by
  obtain ⟨h1, h2, _, h4⟩ := step_write_refines s hs (.update all q u m) rfl hok hm
  refine ⟨?_, h4⟩
  rw [h2]
  rcases spec_update_cases s.storage all q u m with ⟨he, _⟩ | ⟨db', n, _, hst⟩
  · exact he
  · rw [h1, hst] at herr
    simp at herr

/-- whatever an operation returns — a value or an error — the next state satisfies the invariant and
    holds the Spec's contents: subsequent operations behave normally -/
theorem usable_after_any_op (s : State) (hs : Inv s) (op : Op) (hok : OpOK s.cfg op) (hm : MeasOK op) :
    Inv (s.step op).1 ∧ (s.step op).1.storage = (Spec.step s.storage op).1 := by
  obtain ⟨h1, h2, _⟩ := step_inv s hs op hok hm
  exact ⟨h1, h2⟩

/-- the Spec itself: an error never changes the database, except for the inserted prefix -/
theorem spec_error_preserves (db : DB) (op : Op) (e : Err) (h : (Spec.step db op).2 = .err e) :
    (Spec.step db op).1 = db ∨ ∃ pts m, op = .insert pts m ∧ (Spec.step db op).1 = db ++ (insertPrefix m pts).1 := by
  cases op with
  | insert pts m =>
    right
    refine ⟨pts, m, rfl, ?_⟩
    simp only [Spec.step]
  | update all q u m =>
    left
    rcases spec_update_cases db all q u m with ⟨he, _⟩ | ⟨db', n, _, hst⟩
    · exact he
    · rw [hst] at h
      simp at h
  | remove q m => simp [Spec.step] at h
  | drop name => simp [Spec.step] at h
  | removeAll => simp [Spec.step] at h
  | _ => left; rfl

end TinyFlux.Props.C11
