import TinyFlux.Spec.Types
import TinyFlux.Generated.Validators
/-!
# C14 — no API path lets an invalid value into the database

(T) Both halves are over definitions regenerated from the source on every run.
`accept` are the acceptance predicates translated from the `isinstance` / `is None` expressions of
`validate_tags`, `validate_fields` and the `time` / `measurement` setters (with `bool ⊂ int`);
`entryChecks` records, per API entry point and slot, that the validator call or guard precedes the
store (constructor, the four setters, insert incl. the re-validation of the dicts, static update
arguments, results of update callables). The theorems: a value is accepted iff it is well-typed for
its slot — for all ten modelled Python types — and every entry point validates every slot it can
write. Stored points are therefore always well-typed; in the database model (`Model/DB.lean`) that
is the typing of `Spec.Point` itself.
(C) the battery of wrongly-typed values × slots × entry points is run on the real code.
-/
namespace TinyFlux.Props.C14
open TinyFlux.Spec TinyFlux.Generated

def toV : PyType → VType
  | .none => .none | .bool => .bool | .int => .int | .float => .float | .str => .str
  | .bytes => .bytes | .list => .list | .dict => .dict | .datetime => .datetime | .other => .other

/-- the acceptance predicate the code applies to a slot -/
def accept : Slot → PyType → Bool
  | .time => acceptTime | .meas => acceptMeasurement | .tagKey => acceptTagKey
  | .tagValue => acceptTagValue | .fieldKey => acceptFieldKey | .fieldValue => acceptFieldValue

def allTypes : List PyType := [.none, .bool, .int, .float, .str, .bytes, .list, .dict, .datetime, .other]
def allSlots : List Slot := [.time, .meas, .tagKey, .tagValue, .fieldKey, .fieldValue]

theorem allTypes_complete (t : PyType) : t ∈ allTypes := by cases t <;> decide
theorem allSlots_complete (s : Slot) : s ∈ allSlots := by cases s <;> decide

/-- a value is accepted exactly when it is well-typed for its slot (booleans are not numbers, `None`
    is a tag value and a field value but neither a key, a time nor a measurement) -/
theorem accept_iff_welltyped (s : Slot) (t : PyType) : accept s t = wellTyped s (toV t) := by
  cases s <;> cases t <;> decide

/-- tag and field sets must be mappings -/
theorem sets_must_be_mappings (t : PyType) : acceptMapping t = (t == .dict) := by cases t <;> rfl

/-- the (entry point, slot) pairs through which data can reach storage -/
def required : List (String × String) :=
  [("constructor", "calls_validate"), ("constructor", "time"), ("constructor", "measurement"),
   ("constructor", "tags"), ("constructor", "fields"),
   ("setter", "time"), ("setter", "measurement"), ("setter", "tags"), ("setter", "fields"),
   ("insert", "is_point"), ("insert", "tags"), ("insert", "fields"),
   ("update_static", "time"), ("update_static", "measurement"), ("update_static", "tags"), ("update_static", "fields"),
   ("update_callable", "time"), ("update_callable", "measurement"), ("update_callable", "tags"), ("update_callable", "fields")]

/-- every entry point validates every slot it can write, before the store -/
theorem every_entry_point_validates :
    required.all (fun r => entryChecks.contains (r.1, r.2, true)) = true := by decide

/-- a value supplied through an entry point is stored only if that entry point's check (which exists,
    by `every_entry_point_validates`) lets it through -/
def storedVia (entry slotName : String) (s : Slot) (t : PyType) : Bool :=
  if entryChecks.contains (entry, slotName, true) then accept s t else true

/-- **C14**: whatever the entry point and the slot, a value that gets stored is well-typed -/
theorem no_invalid_value_stored (entry slotName : String) (h : (entry, slotName) ∈ required)
    (s : Slot) (t : PyType) (hst : storedVia entry slotName s t = true) : wellTyped s (toV t) = true := by
  have hc : entryChecks.contains (entry, slotName, true) = true := by
    have := every_entry_point_validates
    rw [List.all_eq_true] at this
    exact this (entry, slotName) h
  simp only [storedVia, hc, if_true] at hst
  rw [← accept_iff_welltyped]; exact hst

/-- in particular the wrongly-typed battery of the property is rejected in every slot … -/
theorem battery_rejected :
    accept .fieldValue .bool = false ∧ accept .fieldValue .str = false ∧ accept .tagValue .int = false ∧
    accept .tagKey .none = false ∧ accept .fieldKey .int = false ∧ accept .time .str = false ∧
    accept .time .none = false ∧ accept .meas .none = false ∧ accept .meas .bytes = false ∧
    accept .tagValue .bytes = false ∧ accept .fieldValue .list = false ∧ accept .fieldValue .dict = false := by
  decide

/-- … and the valid values are not -/
theorem valid_accepted :
    accept .fieldValue .int = true ∧ accept .fieldValue .float = true ∧ accept .fieldValue .none = true ∧
    accept .tagValue .none = true ∧ accept .tagValue .str = true ∧ accept .time .datetime = true := by decide

end TinyFlux.Props.C14
