import TinyFlux.Lemmas.PropsAux
import TinyFlux.Generated.IndexTables
/-!
# C01 — query results equal exactly the stored points that satisfy the query

For every state reachable by any history of operations (any length; in-order and out-of-order inserts,
updates, removes, reindex), every query (any nesting of `& | ~` over time / measurement / tag / field
comparisons, exists, regex, test, map, noop — user functions arbitrary), every measurement filter and
both configurations of `auto_index`; storage generic in `norm` (identity = MemoryStorage,
`deserialize ∘ serialize` = CSVStorage, with the stored points `Good`, i.e. unchanged by it — C05).
`Inv s` is what `Props/C06.lean` proves of every reachable state.
Guard: the measurement filter is not `""` (known finding `empty-measurement-name`).
-/
namespace TinyFlux.Props.C01
open TinyFlux.Spec TinyFlux.Model

theorem search_refines (s : State) (hs : Inv s) (q : Query) (m : Option String) (sorted : Bool) (hm : m ≠ some "") :
    (s.step (.search q m sorted)).2 = .points (Spec.search s.storage q m sorted) :=
  read_out_eq s hs (.search q m sorted) rfl hm (fun _ h => by simp [Spec.step] at h)

theorem count_refines (s : State) (hs : Inv s) (q : Query) (m : Option String) (hm : m ≠ some "") :
    (s.step (.count q m)).2 = .nat (Spec.search s.storage q m false).length :=
  read_out_eq s hs (.count q m) rfl hm (fun _ h => by simp [Spec.step] at h)

theorem contains_refines (s : State) (hs : Inv s) (q : Query) (m : Option String) (hm : m ≠ some "") :
    (s.step (.contains q m)).2 = .bool (!(Spec.search s.storage q m false).isEmpty) :=
  read_out_eq s hs (.contains q m) rfl hm (fun _ h => by simp [Spec.step] at h)

theorem get_refines (s : State) (hs : Inv s) (q : Query) (m : Option String) (hm : m ≠ some "") :
    (s.step (.get q m)).2 = .point (Spec.search s.storage q m false).head? :=
  read_out_eq s hs (.get q m) rfl hm (fun _ h => by simp [Spec.step] at h)

theorem select_refines (s : State) (hs : Inv s) (keys : List SelKey) (q : Query) (m : Option String) (hm : m ≠ some "") :
    (s.step (.select keys q m)).2 = .rows ((Spec.search s.storage q m false).map (project keys)) :=
  read_out_eq s hs (.select keys q m) rfl hm (fun _ h => by simp [Spec.step] at h)

/-- the answer does not depend on whether it is served from the index or by scanning storage:
    two states with the same storage (one with a valid index, one without) answer alike -/
theorem index_path_eq_scan_path (s₁ s₂ : State) (h₁ : Inv s₁) (h₂ : Inv s₂) (hst : s₁.storage = s₂.storage)
    (q : Query) (m : Option String) (sorted : Bool) (hm : m ≠ some "") :
    (s₁.step (.search q m sorted)).2 = (s₂.step (.search q m sorted)).2 ∧
    (s₁.step (.count q m)).2 = (s₂.step (.count q m)).2 := by
  rw [search_refines s₁ h₁ q m sorted hm, search_refines s₂ h₂ q m sorted hm,
    count_refines s₁ h₁ q m hm, count_refines s₂ h₂ q m hm, hst]
  exact ⟨rfl, rfl⟩

/-- exactly the stored points on which the query is true — a sublist of storage, so no extra, duplicated
    or substituted point, in insertion order -/
theorem unsorted_is_insertion_order (db : DB) (q : Query) (m : Option String) :
    (Spec.search db q m false).Sublist db ∧
    ∀ p, p ∈ Spec.search db q m false ↔ p ∈ db ∧ selected q m p = true := by
  simp only [Spec.search, Bool.false_eq_true, if_false]
  exact ⟨List.filter_sublist, fun p => List.mem_filter⟩

/-- sorted results are the same multiset, in non-decreasing time order, ties in insertion order -/
theorem sorted_is_stable_time_order (db : DB) (q : Query) (m : Option String) :
    (Spec.search db q m true).Perm (Spec.search db q m false) ∧
    (Spec.search db q m true).Pairwise (fun a b => a.time ≤ b.time) ∧
    ∀ t, ((Spec.search db q m true).filter (fun p => p.time == t)) =
         ((Spec.search db q m false).filter (fun p => p.time == t)) := by
  simp only [Spec.search, Bool.false_eq_true, if_false, if_true]
  exact ⟨byTime_perm _, byTime_sorted _, byTime_filter_time _⟩

/-- all of the above after any history from the empty database -/
theorem after_any_history (cfg : Cfg) (ops : List Op) (hok : OpsOK cfg ops) (q : Query) (m : Option String)
    (sorted : Bool) (hm : m ≠ some "") :
    ((runM (init cfg) ops).1.step (.search q m sorted)).2 = .points (Spec.search (runS [] ops).1 q m sorted) := by
  obtain ⟨hinv, hst, _⟩ := reachable cfg ops hok
  rw [search_refines _ hinv q m sorted hm, hst]

/-! ## the hand-written model of the time search still mirrors the source

`Model.Index.searchTs` was written against the operator → (helper, slice) table of
`Index._search_timestamps` and the set algebra of `IndexResult`; both are regenerated from `index.py` on
every run, and these equalities are re-checked by the kernel: an edit to a helper name, a slice bound or a
set operation in the source breaks them (and `searchTs_spec` is a theorem about the model as written). -/

theorem model_mirrors_ts_branch_table :
    Generated.tsBranch =
      [("eq", "find_eq", "results", "set([])"),
       ("ne", "find_eq", "set(self._storage_pos_sorted_by_ts).difference(results)", "set(self._storage_pos_sorted_by_ts)"),
       ("lt", "find_lt", "set(self._storage_pos_sorted_by_ts[:match + 1])", "set([])"),
       ("le", "find_le", "set(self._storage_pos_sorted_by_ts[:match + 1])", "set([])"),
       ("gt", "find_gt", "set(self._storage_pos_sorted_by_ts[match:])", "set([])"),
       ("ge", "find_ge", "set(self._storage_pos_sorted_by_ts[match:])", "set([])")] ∧
    Generated.tsHasGenericBranch = true ∧
    Generated.tsOpSelection = ["op = query._operator if query.is_hashable() else None", "rhs = query._rhs",
      -- (repaired) the bisection branches are for comparisons with an aware datetime only — the Model's `cmp` leaves
      -- over instants; `test` leaves, `None` and naive values take the generic branch
      "op = op if isinstance(rhs, datetime) and rhs.tzinfo else None"] := by
  refine ⟨rfl, rfl, rfl⟩

theorem model_mirrors_index_result_algebra :
    Generated.indexResultOps =
      [("__invert__", "set(range(self._index_count)).difference(self._items)", "self._index_count"),
       ("__and__", "self._items.intersection(other._items)", "self._index_count"),
       ("__or__", "self._items.union(other._items)", "self._index_count")] := rfl

/-! non-vacuity: a reachable state with an out-of-order history meets the hypotheses -/
example : OpsOK { autoIndex := true, norm := id }
    [.insert [some ⟨5, "m", [("a", some "x")], []⟩, some ⟨1, "n", [], [("f", some (.fin 2))]⟩] none,
     .remove (.time (.cmp .lt (.time 3))) none] := by
  intro op hop
  simp only [List.mem_cons, List.not_mem_nil, or_false] at hop
  rcases hop with rfl | rfl
  · refine ⟨?_, by simp [MeasOK]⟩
    intro p hp
    simp only [List.mem_cons, Option.some.injEq, List.not_mem_nil, or_false] at hp
    rcases hp with rfl | rfl <;> simp [Good, WFPoint, setMeas, effMeas]
  · exact ⟨trivial, by simp [MeasOK]⟩

end TinyFlux.Props.C01
