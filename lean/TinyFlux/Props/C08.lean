import TinyFlux.Props.C01
import TinyFlux.Props.C05
/-!
# C08 — timestamps are stored as exact UTC instants and ordered correctly

What is logic is proved here; what is the standard library (the tz database behind
`astimezone`, `datetime.timestamp()` / `fromtimestamp()`, ISO text) is a parameter with a stated law,
exercised by the correspondence runs in four process time zones.

* a datetime is a wall-clock reading plus an offset; normalising to UTC keeps the instant, so two
  presentations of one instant are stored identically;
* a time comparison in a query is a comparison of instants (integers), on the scan path by definition
  of `sem`, on the index path because the index's float keys are a strictly monotone, invertible image
  of microsecond instants: `grid_strictMono` / `grid20_roundtrip` prove this for *any* rounding to a
  grid of ≥ 2²⁰ ticks per second (that binary64 is such a grid for |t| < 2³³ s — years 1700–2240 — is
  the trusted IEEE fact);
* time-sorted results are a stable sort (C01); an updated time is the instant the update denotes;
  the CSV text of a time decodes to the same instant (C05).
-/
namespace TinyFlux.Props.C08
open TinyFlux.Spec TinyFlux.Model

/-- a datetime as supplied by a caller: wall-clock microseconds and the UTC offset they were read in
    (for a naive value the offset is what the tz database says for that wall time) -/
structure Stamp where
  wall : Int
  offset : Int
deriving DecidableEq, Repr

def Stamp.instant (a : Stamp) : Int := a.wall - a.offset
/-- `astimezone(timezone.utc)` -/
def normalise (a : Stamp) : Stamp := { wall := a.instant, offset := 0 }

theorem normalise_keeps_instant (a : Stamp) : (normalise a).instant = a.instant ∧ (normalise a).offset = 0 := by
  simp [normalise, Stamp.instant]

/-- what is stored depends on the instant only, not on the zone it was presented in -/
theorem stored_independent_of_presentation (a b : Stamp) (h : a.instant = b.instant) : normalise a = normalise b := by
  simp [normalise, h]

theorem normalise_idempotent (a : Stamp) : normalise (normalise a) = normalise a := by
  simp [normalise, Stamp.instant]

theorem pyv_time_beq (a b : Int) : (PyV.time a == PyV.time b) = (a == b) := by
  by_cases h : a = b
  · subst h; simp
  · have h1 : PyV.time a ≠ PyV.time b := by intro e; injection e; contradiction
    have h2 : (PyV.time a == PyV.time b) = false := beq_false_of_ne h1
    have h3 : (a == b) = false := beq_false_of_ne h
    rw [h2, h3]

/-- a time comparison in a query is the comparison of the point's instant with the instant of the
    right-hand side, at full (microsecond) resolution -/
theorem time_query_compares_instants (c : Cmp) (x : Time) (p : Point) :
    sem (.time (.cmp c (.time x))) p = ordCmp c (decide (p.time < x)) (p.time == x) := by
  cases c <;> simp [sem, Leaf.eval, pyCmp, ordCmp, pyv_time_beq, bne]

/-- adjacent microseconds are distinguished -/
theorem adjacent_microseconds_distinguished (t : Time) (p : Point) (h : p.time = t) :
    sem (.time (.cmp .lt (.time (t + 1)))) p = true ∧ sem (.time (.cmp .lt (.time t))) p = false ∧
    sem (.time (.cmp .eq (.time (t + 1)))) p = false := by
  subst h
  have h1 : p.time < p.time + 1 := Int.lt_succ _
  have h2 : ¬ (p.time = p.time + 1) := by
    intro h; have := Int.lt_succ p.time; rw [← h] at this; exact Int.lt_irrefl _ this
  have h3 : ¬ (p.time < p.time) := Int.lt_irrefl _
  simp [sem, Leaf.eval, pyCmp, ordCmp, pyv_time_beq, h1, h2, h3]

/-! ## the float keys of the index -/

/-- `r` is a rounding of `n` µs to a grid of `G` ticks per second, within half a tick -/
def NearGrid (G n r : Int) : Prop := 2 * (r * 1000000 - n * G) ≤ 1000000 ∧ 2 * (n * G - r * 1000000) ≤ 1000000
/-- `u` µs is a nearest-microsecond rounding of the grid value `r` -/
def NearMicro (G r u : Int) : Prop := 2 * (u * G - r * 1000000) ≤ G ∧ 2 * (r * 1000000 - u * G) ≤ G

/-- any two roundings (each within half a tick) of distinct microsecond instants to a grid finer than a
    microsecond are strictly ordered like the instants -/
theorem grid_strictMono (G n m rn rm : Int) (hG : 1000000 < G) (h : n < m)
    (hn : NearGrid G n rn) (hm : NearGrid G m rm) : rn < rm := by
  unfold NearGrid at *
  have : n * G + G ≤ m * G := by
    have h1 : n + 1 ≤ m := h
    have := Int.mul_le_mul_of_nonneg_right h1 (by omega : (0 : Int) ≤ G)
    rw [Int.add_mul] at this; omega
  omega

/-- hence comparing float keys is comparing instants: `<`, `=` and `>` all agree -/
theorem float_keys_compare_like_instants (G : Int) (hG : 1000000 < G) (f : Int → Int)
    (hf : ∀ n, NearGrid G n (f n)) (n m : Int) :
    (f n < f m ↔ n < m) ∧ (f n = f m ↔ n = m) := by
  have mono : ∀ a b, a < b → f a < f b := fun a b h => grid_strictMono G a b _ _ hG h (hf a) (hf b)
  constructor
  · constructor
    · intro h
      rcases Int.lt_trichotomy n m with h1 | h1 | h1
      · exact h1
      · subst h1; omega
      · have := mono m n h1; omega
    · exact mono n m
  · constructor
    · intro h
      rcases Int.lt_trichotomy n m with h1 | h1 | h1
      · have := mono n m h1; omega
      · exact h1
      · have := mono m n h1; omega
    · intro h; rw [h]

/-- converting a key back (`fromtimestamp`, rounding to the nearest microsecond) returns the instant,
    on a grid of 2²⁰ ticks per second -/
theorem grid20_roundtrip (n r u : Int) (hn : NearGrid 1048576 n r) (hu : NearMicro 1048576 r u) : u = n := by
  unfold NearGrid NearMicro at *; omega

/-! ## consequences on the model -/

/-- the index path and the scan path give the same answer to a time query (instance of C01) -/
theorem time_query_same_on_both_paths (s₁ s₂ : State) (h₁ : Inv s₁) (h₂ : Inv s₂) (hst : s₁.storage = s₂.storage)
    (c : Cmp) (x : Time) (sorted : Bool) :
    (s₁.step (.search (.time (.cmp c (.time x))) none sorted)).2 =
    (s₂.step (.search (.time (.cmp c (.time x))) none sorted)).2 :=
  (C01.index_path_eq_scan_path s₁ s₂ h₁ h₂ hst _ none sorted (by simp)).1

/-- time-sorted results are in non-decreasing time order, ties in insertion order -/
theorem sorted_stable (db : DB) (q : Query) (m : Option String) :
    (Spec.search db q m true).Pairwise (fun a b => a.time ≤ b.time) ∧
    ∀ t, ((Spec.search db q m true).filter (fun p => p.time == t)) =
         ((Spec.search db q m false).filter (fun p => p.time == t)) :=
  ⟨(C01.sorted_is_stable_time_order db q m).2.1, (C01.sorted_is_stable_time_order db q m).2.2⟩

/-- `update(time=…)`, static or callable: the stored time is the instant the argument denotes -/
theorem update_time_is_instant (u : Upd) (p p' : Point) (f : Time → Except Err Time) (t : Time)
    (hu : u.time = some f) (hf : f p.time = .ok t) (h : upd u p = .ok p') : p'.time = t := by
  unfold upd at h
  have h1 : applyOpt u.time p.time = .ok t := by simp [applyOpt, hu, hf]
  cases h2 : applyOpt u.meas p.meas with
  | error e => simp [h1, h2, bind, Except.bind] at h
  | ok me =>
    simp only [h1, h2, bind, Except.bind] at h
    split at h
    · simp at h
    · split at h
      · simp at h
      · simp only [pure, Except.pure, Except.ok.injEq] at h
        rw [← h]

end TinyFlux.Props.C08
