import TinyFlux.Props.C03
import TinyFlux.Props.C05
import TinyFlux.Model.Codec
/-!
# C03 — non-vacuity witnesses

The hypotheses of the theorems of `Props/C03.lean` (`Inv s`, `OpOK s.cfg (.update …)`, `m ≠ some ""`,
`Spec.update … = .ok …`, `upd u p = .ok p'`) are jointly satisfiable by concrete, non-trivial states and
updates, and the conclusions then say something concrete: every main theorem is instantiated at a
three-point database under a CSV configuration (automatic index, the real row round trip as `norm`) and a
memory configuration (no automatic index) with an update that changes a tag on two points of three, all
hypotheses discharged, and the resulting states and return values are computed (`decide +kernel`).

`OpOK` of an update is the one hypothesis that cannot be discharged by evaluation: it quantifies over every
storable point. It is proved here for the CSV configuration from a closed form of `Good csvCfg`
(`good_csv_iff`), which needs the codec pair to be lawful on all values.
-/
namespace TinyFlux.Props.C03
open TinyFlux.Spec TinyFlux.Model

/-! ## the two configurations

`memCfg`: `MemoryStorage` (`norm = id`), here with automatic indexing off, so every answer below comes from
the scan path over an invalid index. `csvCfg`: `CSVStorage` with automatic indexing on; `norm` is the actual
row round trip `deserialize ∘ serialize` of `Model/Codec.lean` over a concrete codec pair (`wfc`, `wtc`:
the `float`/`datetime` text conversions are parameters of the model; any lawful pair will do, these two
are small enough for the kernel to run). A row that does not decode would come back as the junk point. -/

/-- text of a rational: sign letter, numerator in unary, `/`, denominator in unary (never a digit string) -/
def encQ (q : Rat) : Codec.Str :=
  (if q.num < 0 then 'm' else 'q') :: (List.replicate q.num.natAbs 'i' ++ '/' :: List.replicate q.den 'i')

def wfc : Codec.FieldCodec where
  repr
    | .ninf => ['n'] | .pinf => ['p'] | .fin q => encQ q
  parse
    | ['n'] => some .ninf
    | ['p'] => some .pinf
    | 'q' :: r => some (.fin (mkRat (r.takeWhile (· == 'i')).length ((r.dropWhile (· == 'i')).drop 1).length))
    | 'm' :: r => some (.fin (mkRat (-((r.takeWhile (· == 'i')).length : Int)) ((r.dropWhile (· == 'i')).drop 1).length))
    | _ => none

def wtc : Codec.TimeCodec where
  iso | .ofNat n => 'T' :: List.replicate n 'i' | .negSucc n => 'U' :: List.replicate n 'i'
  fromIso | 'T' :: r => some (Int.ofNat r.length) | 'U' :: r => some (Int.negSucc r.length) | _ => none

def csvNorm (p : Point) : Point :=
  match Codec.deserialize wfc wtc (Codec.serialize wfc wtc false p) with
  | some q => q
  | none => ⟨0, "", [], []⟩

def csvCfg : Cfg := { autoIndex := true, norm := csvNorm }
def memCfg : Cfg := { autoIndex := false, norm := id }

/-! ## three points in two measurements: a `None` tag value, a `None` field value, a non-integer field
value, and a tie in time (`p2`, `p3`) -/

def p1 : Point := ⟨10, "m1", [("a", some "x"), ("b", none)], [("f", some (.fin 2))]⟩
def p2 : Point := ⟨20, "m1", [("a", some "y")], [("f", some (.fin 7)), ("g", none)]⟩
def p3 : Point := ⟨20, "m2", [("a", some "x")], [("f", some (.fin (5 / 2)))]⟩

/-- the history that builds the state: an `insert_multiple`, then an `insert` -/
def ops0 : List Op := [.insert [some p1, some p2] none, .insert [some p3] none]

def sCsv : State := (runM (init csvCfg) ops0).1
def sMem : State := (runM (init memCfg) ops0).1

/-! ## the hypotheses hold: `Good`, `OpsOK`, `Inv` -/

/-- the three points survive the CSV round trip unchanged (the kernel runs the codec) -/
theorem witness_good_csv : Good csvCfg p1 ∧ Good csvCfg p2 ∧ Good csvCfg p3 :=
  ⟨⟨⟨by decide, by decide⟩, by decide +kernel⟩, ⟨⟨by decide, by decide⟩, by decide +kernel⟩,
   ⟨⟨by decide, by decide⟩, by decide +kernel⟩⟩

theorem witness_good_mem : Good memCfg p1 ∧ Good memCfg p2 ∧ Good memCfg p3 :=
  ⟨⟨⟨by decide, by decide⟩, rfl⟩, ⟨⟨by decide, by decide⟩, rfl⟩, ⟨⟨by decide, by decide⟩, rfl⟩⟩

/-- … and the round trip is not the identity: a tag value `"_none"` comes back as `None`, so not every
    point is `Good` for `csvCfg` -/
theorem witness_csv_norm_not_id : ¬ Good csvCfg ⟨10, "m1", [("a", some "_none")], []⟩ := by
  intro h
  exact absurd h.2 (by decide +kernel)

theorem witness_opsOK_csv : OpsOK csvCfg ops0 := by
  intro op hop
  simp only [ops0, List.mem_cons, List.not_mem_nil, or_false] at hop
  rcases hop with rfl | rfl
  · refine ⟨?_, by simp [MeasOK]⟩
    intro p hp
    simp only [List.mem_cons, Option.some.injEq, List.not_mem_nil, or_false] at hp
    rcases hp with rfl | rfl
    · exact witness_good_csv.1
    · exact witness_good_csv.2.1
  · refine ⟨?_, by simp [MeasOK]⟩
    intro p hp
    simp only [List.mem_cons, Option.some.injEq, List.not_mem_nil, or_false] at hp
    subst hp
    exact witness_good_csv.2.2

theorem witness_opsOK_mem : OpsOK memCfg ops0 := by
  intro op hop
  simp only [ops0, List.mem_cons, List.not_mem_nil, or_false] at hop
  rcases hop with rfl | rfl
  · refine ⟨?_, by simp [MeasOK]⟩
    intro p hp
    simp only [List.mem_cons, Option.some.injEq, List.not_mem_nil, or_false] at hp
    rcases hp with rfl | rfl
    · exact witness_good_mem.1
    · exact witness_good_mem.2.1
  · refine ⟨?_, by simp [MeasOK]⟩
    intro p hp
    simp only [List.mem_cons, Option.some.injEq, List.not_mem_nil, or_false] at hp
    subst hp
    exact witness_good_mem.2.2

/-- `Inv` of both states, through the reachability theorem -/
theorem witness_inv_csv : Inv sCsv := (reachable csvCfg ops0 witness_opsOK_csv).1
theorem witness_inv_mem : Inv sMem := (reachable memCfg ops0 witness_opsOK_mem).1

/-- the states are not trivial: three stored points; the CSV state has a valid, populated index (so
    `Inv.rep` says something), the memory state an invalidated one (so answers come from scanning) -/
theorem witness_state_csv :
    sCsv.storage = [p1, p2, p3] ∧ sCsv.storage.length = 3 ∧ sCsv.index.valid = true ∧
    sCsv.index.numItems = 3 ∧ sCsv.index.ts = [10, 20, 20] ∧ sCsv.index.pos = [0, 1, 2] ∧
    sCsv.cfg.autoIndex = true := by decide +kernel
theorem witness_state_mem :
    sMem.storage = [p1, p2, p3] ∧ sMem.storage.length = 3 ∧ sMem.index.valid = false ∧
    sMem.cfg.autoIndex = false := by decide +kernel
theorem witness_rep_csv : Represents sCsv.index sCsv.storage := witness_inv_csv.rep witness_state_csv.2.2.1

/-- no measurement filter used below is the empty string -/
theorem mOK (s : String) (h : s ≠ "" := by decide) : (some s : Option String) ≠ some "" := by
  intro e; exact h (Option.some.inj e)
theorem noneOK : (none : Option String) ≠ some "" := by simp

/-! ## what `Good csvCfg` is, in closed form

`OpOK` of an update quantifies over *every* storable point, not only the stored ones, so evaluating the
codec on three points is not enough: the codec pair is shown lawful for all values, which makes the row
round trip the map "replace a tag value `"_none"` by `None`" on dict-shaped points (C05 gives one
direction), and `Good csvCfg` the predicate "dict-shaped, no tag value `"_none"`". -/

theorem wtc_law (t : Int) : wtc.fromIso (wtc.iso t) = some t := by
  cases t <;> simp [wtc]

theorem wfc_parse_repr (n : Num) : wfc.parse (wfc.repr n) = some n := by
  cases n with
  | ninf => rfl
  | pinf => rfl
  | fin q =>
    by_cases h : q.num < 0
    · have e : (-(q.num.natAbs : Int)) = q.num := by omega
      simp [wfc, encQ, h, e, Rat.mkRat_self]
    · have e : (q.num.natAbs : Int) = q.num := by omega
      simp [wfc, encQ, h]
      rw [e, Rat.mkRat_self]

theorem wfc_shape (n : Num) : wfc.repr n ≠ [] ∧ Codec.isDigits (wfc.repr n) = false ∧
    ¬ (∃ t, wfc.repr n = '-' :: t ∧ Codec.isDigits t = true) := by
  cases n with
  | ninf => simp [wfc, Codec.isDigits]
  | pinf => simp [wfc, Codec.isDigits]
  | fin q => by_cases h : q.num < 0 <;> simp [wfc, encQ, h, Codec.isDigits]

theorem wfc_sentinel : Codec.SentinelNotNumber wfc := by
  simp [Codec.SentinelNotNumber, Lemmas.CodecLemmas.noneS_eq, wfc]

/-- what the CSV format does to a tag value: the sentinel text comes back as `None` -/
def scrub (v : Option String) : Option String := if v = some Generated.noneStr then none else v
def scrubTags (p : Point) : Point := { p with tags := p.tags.map (fun kv => (kv.1, scrub kv.2)) }

theorem serialize_scrub (p : Point) :
    Codec.serialize wfc wtc false (scrubTags p) = Codec.serialize wfc wtc false p := by
  have h : ∀ v : Option String, Lemmas.CodecLemmas.tagValCell (scrub v) = Lemmas.CodecLemmas.tagValCell v := by
    intro v
    cases v with
    | none => rfl
    | some s =>
      by_cases hs : s = Generated.noneStr
      · subst hs; simp [scrub, Lemmas.CodecLemmas.tagValCell, Codec.noneS]
      · simp [scrub, hs]
  rw [Lemmas.CodecLemmas.serialize_eq, Lemmas.CodecLemmas.serialize_eq]
  simp [scrubTags, Lemmas.CodecLemmas.tagCells, List.flatMap_map, h]

theorem codable_scrub (p : Point) (hp : WFPoint p) : Codec.Codable wfc wtc (scrubTags p) where
  timeOk := wtc_law _
  measOk := by intro h; simp [Generated.measEmptyAsSentinel] at h
  tagKeys := by simpa [scrubTags, List.map_map, Function.comp_def] using hp.1
  fieldKeys := hp.2
  tagVals := by
    intro kv hkv
    simp only [scrubTags, List.mem_map] at hkv
    obtain ⟨kv', _, rfl⟩ := hkv
    simp only [scrub]
    split <;> simp_all
  fieldVals := by
    intro kv _ n _
    exact ⟨wfc_parse_repr n, wfc_shape n⟩

/-- the closed form of the CSV round trip on dict-shaped points -/
theorem csvNorm_eq (p : Point) (hp : WFPoint p) : csvNorm p = scrubTags p := by
  unfold csvNorm
  rw [← serialize_scrub, C05.row_roundtrip_partial wfc wtc wfc_sentinel false _ (codable_scrub p hp)]

theorem map_eq_self {α} (f : α → α) (l : List α) (h : l.map f = l) : ∀ a ∈ l, f a = a := by
  induction l with
  | nil => simp
  | cons x t ih =>
    simp only [List.map_cons, List.cons.injEq] at h
    intro a ha
    rcases List.mem_cons.mp ha with rfl | ha
    · exact h.1
    · exact ih h.2 a ha

/-- what CSV storage holds faithfully, for this codec: dict-shaped points with no tag value `"_none"` -/
theorem good_csv_iff (p : Point) :
    Good csvCfg p ↔ WFPoint p ∧ ∀ kv ∈ p.tags, kv.2 ≠ some Generated.noneStr := by
  constructor
  · rintro ⟨hw, hn⟩
    refine ⟨hw, ?_⟩
    have : csvNorm p = p := hn
    rw [csvNorm_eq p hw] at this
    have ht : p.tags.map (fun kv => (kv.1, scrub kv.2)) = p.tags := congrArg Point.tags this
    intro kv hkv hv
    have := map_eq_self _ _ ht kv hkv
    rw [hv] at this
    have := congrArg Prod.snd this
    simp [scrub, hv] at this
  · rintro ⟨hw, hv⟩
    refine ⟨hw, ?_⟩
    show csvNorm p = p
    rw [csvNorm_eq p hw]
    have : p.tags.map (fun kv => (kv.1, scrub kv.2)) = p.tags := by
      conv => rhs; rw [← List.map_id p.tags]
      apply List.map_congr_left
      intro kv hkv
      have := hv kv hkv
      simp [scrub, this]
    cases p
    simp_all [scrubTags]

theorem good_mem_iff (p : Point) : Good memCfg p ↔ WFPoint p := by
  simp [Good, memCfg]

/-! ## updates that set one tag keep points storable -/

theorem dictSet_mem {V : Type} (d : List (String × V)) (k : String) (v : V) (kv : String × V)
    (h : kv ∈ dictSet d k v) : kv = (k, v) ∨ kv ∈ d := by
  induction d with
  | nil => simpa [dictSet] using h
  | cons x t ih =>
    obtain ⟨a, b⟩ := x
    unfold dictSet at h
    by_cases hk : a = k
    · subst hk
      simp only [beq_self_eq_true, if_true, List.mem_cons] at h
      rcases h with h | h
      · exact Or.inl h
      · exact Or.inr (List.mem_cons_of_mem _ h)
    · have hk' : (a == k) = false := by simpa using hk
      simp only [hk', Bool.false_eq_true, if_false, List.mem_cons] at h
      rcases h with h | h
      · exact Or.inr (h ▸ List.mem_cons_self)
      · rcases ih h with h | h
        · exact Or.inl h
        · exact Or.inr (List.mem_cons_of_mem _ h)

theorem dictSet_nodup {V : Type} (d : List (String × V)) (k : String) (v : V) (h : (d.map (·.1)).Nodup) :
    ((dictSet d k v).map (·.1)).Nodup := by
  induction d with
  | nil => simp [dictSet]
  | cons x t ih =>
    obtain ⟨a, b⟩ := x
    simp only [List.map_cons, List.nodup_cons] at h
    unfold dictSet
    by_cases hk : a = k
    · subst hk
      simpa using h
    · have hk' : (a == k) = false := by simpa using hk
      simp only [hk', Bool.false_eq_true, if_false, List.map_cons, List.nodup_cons]
      refine ⟨?_, ih h.2⟩
      intro hm
      obtain ⟨kv, hkv, hfst⟩ := List.mem_map.mp hm
      rcases dictSet_mem t k v kv hkv with rfl | hkv
      · exact hk hfst.symm
      · exact h.1 (List.mem_map.mpr ⟨kv, hkv, hfst⟩)

/-- an update that gives only `tags`, as a callable -/
def tagUpd (f : List (String × Option String) → Except Err (List (String × Option String))) : Upd :=
  { time := none, meas := none, tags := some f, fields := none, unsetTags := [], unsetFields := [] }

theorem upd_tagUpd (f : List (String × Option String) → Except Err (List (String × Option String)))
    (p p' : Point) (h : upd (tagUpd f) p = .ok p') :
    ∃ new, f p.tags = .ok new ∧ p' = { p with tags := dictUpdate p.tags new } := by
  cases hf : f p.tags with
  | error e => simp [upd, tagUpd, applyOpt, hf, bind, Except.bind, pure, Except.pure] at h
  | ok new =>
    refine ⟨new, rfl, ?_⟩
    simp [upd, tagUpd, applyOpt, hf, bind, Except.bind, pure, Except.pure, eraseKeys] at h
    subst h
    simp

/-- `OpOK` of an update whose callable, when it does not raise, sets the one tag `k := v` (`v` not the
    sentinel text): in both configurations, for every storable point -/
theorem opOK_tagUpd (cfg : Cfg) (hcfg : cfg = csvCfg ∨ cfg = memCfg)
    (f : List (String × Option String) → Except Err (List (String × Option String)))
    (k : String) (v : Option String) (hv : v ≠ some Generated.noneStr)
    (hf : ∀ tg new, f tg = .ok new → new = [(k, v)]) (all : Bool) (q : Query) (m : Option String) :
    OpOK cfg (.update all q (tagUpd f) m) := by
  intro p p' hg hu
  obtain ⟨new, hnew, rfl⟩ := upd_tagUpd f p p' hu
  rw [hf _ _ hnew]
  have e : dictUpdate p.tags [(k, v)] = dictSet p.tags k v := rfl
  rw [e]
  rcases hcfg with rfl | rfl
  · rw [good_csv_iff] at hg ⊢
    refine ⟨⟨dictSet_nodup _ _ _ hg.1.1, hg.1.2⟩, ?_⟩
    intro kv hkv
    rcases dictSet_mem _ _ _ _ hkv with rfl | hkv
    · exact hv
    · exact hg.2 kv hkv
  · rw [good_mem_iff] at hg ⊢
    exact ⟨dictSet_nodup _ _ _ hg.1, hg.2⟩

/-! ## C03: the main theorems at these states -/

/-- `tag a == "x"`: matches `p1` and `p3` -/
def qX : Query := .tag "a" (.cmp .eq (.str "x"))
/-- `update(query, tags={"a": "z"})` -/
def uZ : Upd := tagUpd (fun _ => .ok [("a", some "z")])
/-- `update(query, tags={"a": "x"})`: leaves `p1` and `p3` as they are -/
def uX : Upd := tagUpd (fun _ => .ok [("a", some "x")])

def p1z : Point := ⟨10, "m1", [("a", some "z"), ("b", none)], [("f", some (.fin 2))]⟩
def p2z : Point := ⟨20, "m1", [("a", some "z")], [("f", some (.fin 7)), ("g", none)]⟩
def p2x : Point := ⟨20, "m1", [("a", some "x")], [("f", some (.fin 7)), ("g", none)]⟩
def p3z : Point := ⟨20, "m2", [("a", some "z")], [("f", some (.fin (5 / 2)))]⟩

/-- `OpOK`: whatever storable point these updates are applied to, the result is storable — both configurations -/
theorem witness_opOK_uZ (cfg : Cfg) (hcfg : cfg = csvCfg ∨ cfg = memCfg) (all : Bool) (q : Query) (m : Option String) :
    OpOK cfg (.update all q uZ m) :=
  opOK_tagUpd cfg hcfg _ "a" (some "z") (by decide) (fun _ _ h => by injection h with h; exact h.symm) all q m
theorem witness_opOK_uX (cfg : Cfg) (hcfg : cfg = csvCfg ∨ cfg = memCfg) (all : Bool) (q : Query) (m : Option String) :
    OpOK cfg (.update all q uX m) :=
  opOK_tagUpd cfg hcfg _ "a" (some "x") (by decide) (fun _ _ h => by injection h with h; exact h.symm) all q m
/-- … and `OpOK` is not vacuous: it is false of the update that writes the sentinel text into a tag
    (`p1` is storable, its update is not) -/
theorem witness_opOK_fails : ¬ OpOK csvCfg (.update false qX (tagUpd (fun _ => .ok [("a", some "_none")])) none) := by
  intro h
  have := (h p1 ⟨10, "m1", [("a", some "_none"), ("b", none)], [("f", some (.fin 2))]⟩ witness_good_csv.1 rfl).2
  exact absurd this (by decide +kernel)

/-! ### `update_refines` -/
example :
    (sCsv.step (.update false qX uZ none)).1.storage = (Spec.step sCsv.storage (.update false qX uZ none)).1 ∧
    (sCsv.step (.update false qX uZ none)).2 = (Spec.step sCsv.storage (.update false qX uZ none)).2 ∧
    Inv (sCsv.step (.update false qX uZ none)).1 :=
  update_refines sCsv witness_inv_csv false qX uZ none (witness_opOK_uZ _ (Or.inl rfl) _ _ _) noneOK
example :
    (sMem.step (.update true qX uZ (some "m1"))).1.storage = (Spec.step sMem.storage (.update true qX uZ (some "m1"))).1 ∧
    (sMem.step (.update true qX uZ (some "m1"))).2 = (Spec.step sMem.storage (.update true qX uZ (some "m1"))).2 ∧
    Inv (sMem.step (.update true qX uZ (some "m1"))).1 :=
  update_refines sMem witness_inv_mem true qX uZ (some "m1") (witness_opOK_uZ _ (Or.inr rfl) _ _ _) (mOK "m1")
/-- two points of three change, in place; `update_all` through measurement `m1` changes `p1` and `p2`;
    an update that leaves the selected points equal reports 0 and one that changes one of three selected
    reports 1; the indexed state has a valid (rebuilt) index afterwards -/
theorem witness_update_value :
    (sCsv.step (.update false qX uZ none)).1.storage = [p1z, p2, p3z] ∧
    (sCsv.step (.update false qX uZ none)).2 = .nat 2 ∧
    (sCsv.step (.update false qX uZ none)).1.index.valid = true ∧
    (sCsv.step (.update false qX uZ none)).1.index.numItems = 3 ∧
    (Spec.step sCsv.storage (.update false qX uZ none)).1 = [p1z, p2, p3z] ∧
    (sMem.step (.update false qX uZ none)).1.storage = [p1z, p2, p3z] ∧
    (sMem.step (.update false qX uZ none)).2 = .nat 2 ∧
    (sMem.step (.update true qX uZ (some "m1"))).1.storage = [p1z, p2z, p3] ∧
    (sMem.step (.update true qX uZ (some "m1"))).2 = .nat 2 ∧
    (sCsv.step (.update true qX uZ (some "m1"))).1.storage = [p1z, p2z, p3] ∧
    (sCsv.step (.update false qX uX none)).1.storage = [p1, p2, p3] ∧
    (sCsv.step (.update false qX uX none)).2 = .nat 0 ∧
    (sCsv.step (.update true qX uX none)).1.storage = [p1, p2x, p3] ∧
    (sCsv.step (.update true qX uX none)).2 = .nat 1 := by decide +kernel
/-- the read that follows sees the new tag values (index path) -/
theorem witness_read_after_update_value :
    ((sCsv.step (.update false qX uZ none)).1.step (.count (.tag "a" (.cmp .eq (.str "z"))) none)).2 = .nat 2 ∧
    ((sCsv.step (.update false qX uZ none)).1.step (.count qX none)).2 = .nat 0 := by decide +kernel

/-! ### `order_untouched`, `selected_updated`, `update_count` (Spec level) -/
theorem witness_spec_update : Spec.update [p1, p2, p3] uZ qX none = .ok ([p1z, p2, p3z], 2) := by rfl

example :
    [p1z, p2, p3z].length = [p1, p2, p3].length ∧
    ∀ i (_ : i < [p1, p2, p3].length) (_ : i < [p1z, p2, p3z].length),
      selected qX none [p1, p2, p3][i] = false → [p1z, p2, p3z][i] = [p1, p2, p3][i] :=
  order_untouched [p1, p2, p3] [p1z, p2, p3z] uZ qX none 2 witness_spec_update
/-- at position 1 (`p2`, not selected) this says the point is untouched -/
example : [p1z, p2, p3z][1] = [p1, p2, p3][1] :=
  (order_untouched [p1, p2, p3] [p1z, p2, p3z] uZ qX none 2 witness_spec_update).2 1 (by decide) (by decide)
    (by decide +kernel)
example :
    ∀ i (_ : i < [p1, p2, p3].length) (_ : i < [p1z, p2, p3z].length), selected qX none [p1, p2, p3][i] = true →
      ∃ p', upd uZ [p1, p2, p3][i] = .ok p' ∧
        [p1z, p2, p3z][i] = (if p'.eqv [p1, p2, p3][i] then [p1, p2, p3][i] else p') :=
  selected_updated [p1, p2, p3] [p1z, p2, p3z] uZ qX none 2 witness_spec_update
/-- at position 2 (`p3`, selected) this gives the updated point -/
example : ∃ p', upd uZ p3 = .ok p' ∧ p3z = (if p'.eqv p3 then p3 else p') :=
  selected_updated [p1, p2, p3] [p1z, p2, p3z] uZ qX none 2 witness_spec_update 2 (by decide) (by decide)
    (by decide +kernel)
theorem witness_upd_value : upd uZ p3 = .ok p3z ∧ p3z.eqv p3 = false ∧ upd uX p3 = .ok p3 :=
  ⟨by rfl, by decide +kernel, by rfl⟩
example : 2 = ((List.zip [p1, p2, p3] [p1z, p2, p3z]).filter (fun pp => !(pp.1.eqv pp.2))).length :=
  update_count [p1, p2, p3] [p1z, p2, p3z] uZ qX none 2 witness_spec_update

/-! ### `never_drops_keys`, `merge_values`, `unset_after_set`, `update_all_is_update_noop` -/
example : "b" ∈ (dictUpdate p1.tags [("a", some "z"), ("c", none)]).map (·.1) :=
  never_drops_keys p1.tags [("a", some "z"), ("c", none)] "b" (by decide)
example :
    (dictUpdate p2.fields [("g", some (.fin 1)), ("h", none)]).lookup "g" =
      (match ([("g", some (.fin 1)), ("h", none)] : List (String × Option Num)).lookup "g" with
       | some v => some v | none => p2.fields.lookup "g") :=
  merge_values p2.fields [("g", some (.fin 1)), ("h", none)] (by decide) "g"
theorem witness_merge_value :
    dictUpdate p2.fields [("g", some (.fin 1)), ("h", none)] =
      [("f", some (.fin 7)), ("g", some (.fin 1)), ("h", none)] := by decide +kernel

/-- `update(tags={"c": "w"}, unset_tags=["c", "b"])` -/
def uU : Upd :=
  { time := none, meas := none, tags := some (fun _ => .ok [("c", some "w")]), fields := none,
    unsetTags := ["c", "b"], unsetFields := ["zz"] }
theorem witness_upd_unset : upd uU p1 = .ok ⟨10, "m1", [("a", some "x")], [("f", some (.fin 2))]⟩ := by rfl
example :
    (∀ k ∈ ["c", "b"], (⟨10, "m1", [("a", some "x")], [("f", some (.fin 2))]⟩ : Point).tags.lookup k = none) ∧
    (∀ k ∈ ["zz"], (⟨10, "m1", [("a", some "x")], [("f", some (.fin 2))]⟩ : Point).fields.lookup k = none) :=
  unset_after_set uU p1 _ witness_upd_unset

example : Spec.step sCsv.storage (.update true qX uZ (some "m1")) = Spec.step sCsv.storage (.update false .noop uZ (some "m1")) :=
  update_all_is_update_noop sCsv.storage qX uZ (some "m1")

end TinyFlux.Props.C03
