import TinyFlux.Props.C14
/-!
# C14 — non-vacuity witness

For each of the six slots a concrete well-typed and a concrete ill-typed Python type, with `accept_iff_welltyped`
instantiated at both (accepted = well-typed = `true`, resp. `false`: both sides of the equivalence occur); and
`no_invalid_value_stored` instantiated at concrete entry points whose hypotheses (`∈ required`, `storedVia … = true`)
hold, next to instances where `storedVia … = false` (the ill-typed value is stopped) and where the membership
hypothesis fails (an entry point that is not in the table stops nothing), so neither hypothesis is idle.
-/
namespace TinyFlux.Props.C14
open TinyFlux.Spec TinyFlux.Generated

/-- slot, a type it may hold, a type it may not hold -/
def witness_table : List (Slot × PyType × PyType) :=
  [(.time, .datetime, .str), (.meas, .str, .none), (.tagKey, .str, .int), (.tagValue, .none, .int),
   (.fieldKey, .str, .bytes), (.fieldValue, .float, .bool)]

/-- every slot occurs -/
theorem witness_table_covers : witness_table.map (·.1) = allSlots := by decide

/-- the good values are well-typed and the bad ones are not (the specification side, computed) -/
theorem witness_spec_side :
    witness_table.all (fun r => wellTyped r.1 (toV r.2.1) && !wellTyped r.1 (toV r.2.2)) = true := by decide

/-- the good values are accepted and the bad ones rejected (the code side, computed) -/
theorem witness_code_side :
    witness_table.all (fun r => accept r.1 r.2.1 && !accept r.1 r.2.2) = true := by decide

/-- `accept_iff_welltyped` at each row, for the good and for the bad value, with the common value spelled out -/
theorem witness_accept_iff :
    ∀ r ∈ witness_table,
      (accept r.1 r.2.1 = wellTyped r.1 (toV r.2.1) ∧ wellTyped r.1 (toV r.2.1) = true) ∧
      (accept r.1 r.2.2 = wellTyped r.1 (toV r.2.2) ∧ wellTyped r.1 (toV r.2.2) = false) := by
  intro r hr
  refine ⟨⟨accept_iff_welltyped r.1 r.2.1, ?_⟩, ⟨accept_iff_welltyped r.1 r.2.2, ?_⟩⟩
  · have := witness_spec_side; rw [List.all_eq_true] at this; have := this r hr; simp at this; exact this.1
  · have := witness_spec_side; rw [List.all_eq_true] at this; have := this r hr; simp at this; exact this.2

/-- one by one: a float field value and a `None` tag value go in, a `bool` field value and an `int` tag value do not -/
example : accept .fieldValue .float = wellTyped .fieldValue (toV .float) := accept_iff_welltyped .fieldValue .float
example : accept .fieldValue .float = true ∧ wellTyped .fieldValue .float = true := by decide
example : accept .fieldValue .bool = wellTyped .fieldValue (toV .bool) := accept_iff_welltyped .fieldValue .bool
example : accept .fieldValue .bool = false ∧ wellTyped .fieldValue .bool = false := by decide
example : accept .tagValue .none = true ∧ accept .tagValue .int = false := by decide
example : accept .time .datetime = true ∧ accept .time .str = false ∧ accept .time .none = false := by decide

/-- `sets_must_be_mappings` -/
example : acceptMapping .dict = true ∧ acceptMapping .list = false :=
  ⟨by rw [sets_must_be_mappings]; decide, by rw [sets_must_be_mappings]; decide⟩

/-! ## `no_invalid_value_stored` -/

/-- its hypotheses hold for a float stored into a field through `insert` … -/
theorem witness_stored_float : wellTyped .fieldValue (toV .float) = true :=
  no_invalid_value_stored "insert" "fields" (by decide) .fieldValue .float (by decide)

/-- … for a datetime produced by an update callable … -/
theorem witness_stored_time : wellTyped .time (toV .datetime) = true :=
  no_invalid_value_stored "update_callable" "time" (by decide) .time .datetime (by decide)

/-- … and for a `None` tag value passed to the constructor -/
theorem witness_stored_none_tag : wellTyped .tagValue (toV .none) = true :=
  no_invalid_value_stored "constructor" "tags" (by decide) .tagValue .none (by decide)

/-- the hypothesis `storedVia … = true` discriminates: the ill-typed values are stopped at every listed entry point -/
theorem witness_bad_values_stopped :
    required.all (fun e => witness_table.all (fun r => !storedVia e.1 e.2 r.1 r.2.2 && storedVia e.1 e.2 r.1 r.2.1)) = true := by
  decide

/-- the hypothesis `∈ required` matters: an entry point without a recorded check would stop nothing -/
theorem witness_unlisted_entry_stops_nothing :
    ("pickle", "fields") ∉ required ∧ storedVia "pickle" "fields" .fieldValue .bool = true ∧
    wellTyped .fieldValue (toV .bool) = false := by decide

example : required.length = 20 ∧ entryChecks.length = 20 ∧ allTypes.length = 10 ∧ allSlots.length = 6 := by decide

end TinyFlux.Props.C14
