import TinyFlux.Generated.Footprint
import TinyFlux.Model.Footprint
import TinyFlux.Generated.CallGraph
import TinyFlux.Model.CallGraph

/-! # C03: the state the code keeps is the state the Model has (database, both storages, index)

Over `Generated/Footprint.lean` (regenerated from the source on every run). A cache, a memo table or a flag added
to one of these classes or modules is state no theorem of this property covers: these stop checking. -/
namespace TinyFlux.Props.C03
open TinyFlux

/-- every attribute these classes assign is a component of the Model's state (`Model/Footprint.lean` says which) -/
theorem state_is_the_models_state :
    Generated.classState.lookup "database.TinyFlux" = some Model.Footprint.tinyFlux ∧
    Generated.classState.lookup "storages.CSVStorage" = some Model.Footprint.csvStorage ∧
    Generated.classState.lookup "storages.MemoryStorage" = some Model.Footprint.memoryStorage ∧
    Generated.classState.lookup "index.Index" = some Model.Footprint.index := by decide

/-- no module-level variable, caching decorator, `global`/`nonlocal` or mutable default argument beyond the
    modelled ones; no class the Model does not know -/
theorem no_hidden_state :
    Generated.moduleState.lookup "database" = Model.Footprint.modules.lookup "database" ∧
    Generated.moduleState.lookup "storages" = Model.Footprint.modules.lookup "storages" ∧
    Generated.classState.map (·.1) = Model.Footprint.classNames := by decide

/-- every function of these classes / modules calls, catches and raises exactly what it did when the Model was
    written against it and validated (`Model/CallGraph.lean`); and there is no table the Model does not know -/
theorem code_uses_the_modelled_primitives :
    Generated.calls_database_TinyFlux = Model.CallGraph.calls_database_TinyFlux ∧
    Generated.calls_database_toplevel = Model.CallGraph.calls_database_toplevel ∧
    Generated.calls_storages_Storage = Model.CallGraph.calls_storages_Storage ∧
    Generated.calls_storages_CSVStorage = Model.CallGraph.calls_storages_CSVStorage ∧
    Generated.calls_storages_MemoryStorage = Model.CallGraph.calls_storages_MemoryStorage ∧
    Generated.calls_storages_toplevel = Model.CallGraph.calls_storages_toplevel ∧
    Generated.calls_index_Index = Model.CallGraph.calls_index_Index ∧
    Generated.calls_index_IndexResult = Model.CallGraph.calls_index_IndexResult ∧
    Generated.calls_index_toplevel = Model.CallGraph.calls_index_toplevel ∧
    Generated.calls_point_Point = Model.CallGraph.calls_point_Point ∧
    Generated.calls_point_toplevel = Model.CallGraph.calls_point_toplevel ∧
    Generated.callGraphTables = Model.CallGraph.callGraphTables := ⟨rfl, rfl, rfl, rfl, rfl, rfl, rfl, rfl, rfl, rfl, rfl, rfl⟩

end TinyFlux.Props.C03
