import TinyFlux.Lemmas.Bisect
import TinyFlux.Generated.Utils
/-!
# C18 — sorted-list search helpers return the documented boundary positions

Property theorems ONLY. They are stated about the definitions that `tools/py2lean` regenerates
from `tinyflux/utils.py` on every run (`TinyFlux.Generated.find_*`), for **every** list sorted by
`≤` (duplicates allowed, any length) and every probe.
-/
set_option linter.unusedSimpArgs false
namespace TinyFlux.Props.C18
open TinyFlux.Py TinyFlux.Generated

/-- documented result of `find_eq`: leftmost position equal to the probe, or `None`. -/
def SpecEq (l : List Int) (x : Int) (r : V) : Prop :=
  (∃ i : Nat, r = .int i ∧ ∃ h : i < l.length, l[i] = x ∧ ∀ j (hj : j < l.length), j < i → l[j] ≠ x) ∨
  (r = .none ∧ ∀ j (hj : j < l.length), l[j] ≠ x)

/-- `find_lt`: rightmost position strictly below the probe, or `None`. -/
def SpecLt (l : List Int) (x : Int) (r : V) : Prop :=
  (∃ i : Nat, r = .int i ∧ ∃ h : i < l.length, l[i] < x ∧ ∀ j (hj : j < l.length), i < j → ¬ l[j] < x) ∨
  (r = .none ∧ ∀ j (hj : j < l.length), ¬ l[j] < x)

/-- `find_le`: rightmost position not above the probe, or `None`. -/
def SpecLe (l : List Int) (x : Int) (r : V) : Prop :=
  (∃ i : Nat, r = .int i ∧ ∃ h : i < l.length, l[i] ≤ x ∧ ∀ j (hj : j < l.length), i < j → ¬ l[j] ≤ x) ∨
  (r = .none ∧ ∀ j (hj : j < l.length), ¬ l[j] ≤ x)

/-- `find_gt`: leftmost position strictly above the probe, or `None`. -/
def SpecGt (l : List Int) (x : Int) (r : V) : Prop :=
  (∃ i : Nat, r = .int i ∧ ∃ h : i < l.length, x < l[i] ∧ ∀ j (hj : j < l.length), j < i → ¬ x < l[j]) ∨
  (r = .none ∧ ∀ j (hj : j < l.length), ¬ x < l[j])

/-- `find_ge`: leftmost position not below the probe, or `None`. -/
def SpecGe (l : List Int) (x : Int) (r : V) : Prop :=
  (∃ i : Nat, r = .int i ∧ ∃ h : i < l.length, x ≤ l[i] ∧ ∀ j (hj : j < l.length), j < i → ¬ x ≤ l[j]) ∨
  (r = .none ∧ ∀ j (hj : j < l.length), ¬ x ≤ l[j])

theorem find_lt_spec (l : List Int) (hs : l.Pairwise (· ≤ ·)) (x : Int) :
    ∃ r, find_lt (.list l) (.int x) = .ok r ∧ SpecLt l x r := by
  have hle := bisectLeft_le l x
  by_cases h0 : bisectLeftNat l x = 0
  · refine ⟨.none, ?_, Or.inr ⟨rfl, ?_⟩⟩
    · simp [find_lt, bisect_left, truthy, h0, bind, Except.bind, pure, Except.pure]
    · intro j hj hlt
      have := ge_of_bisectLeft_le l hs x j (by omega) hj
      omega
  · refine ⟨.int ((bisectLeftNat l x : Int) - 1), ?_, Or.inl ⟨bisectLeftNat l x - 1, ?_, ?_, ?_, ?_⟩⟩
    · simp [find_lt, bisect_left, truthy, h0, sub, bind, Except.bind, pure, Except.pure]
    · congr 1; omega
    · omega
    · exact lt_of_lt_bisectLeft l x _ (by omega) (by omega)
    · intro j hj hij
      have := ge_of_bisectLeft_le l hs x j (by omega) hj
      omega

theorem find_le_spec (l : List Int) (hs : l.Pairwise (· ≤ ·)) (x : Int) :
    ∃ r, find_le (.list l) (.int x) = .ok r ∧ SpecLe l x r := by
  have hle := bisectRight_le l x
  by_cases h0 : bisectRightNat l x = 0
  · refine ⟨.none, ?_, Or.inr ⟨rfl, ?_⟩⟩
    · simp [find_le, bisect_right, truthy, h0, bind, Except.bind, pure, Except.pure]
    · intro j hj hlt
      have := gt_of_bisectRight_le l hs x j (by omega) hj
      omega
  · refine ⟨.int ((bisectRightNat l x : Int) - 1), ?_, Or.inl ⟨bisectRightNat l x - 1, ?_, ?_, ?_, ?_⟩⟩
    · simp [find_le, bisect_right, truthy, h0, sub, bind, Except.bind, pure, Except.pure]
    · congr 1; omega
    · omega
    · exact le_of_lt_bisectRight l x _ (by omega) (by omega)
    · intro j hj hij
      have := gt_of_bisectRight_le l hs x j (by omega) hj
      omega

theorem find_gt_spec (l : List Int) (hs : l.Pairwise (· ≤ ·)) (x : Int) :
    ∃ r, find_gt (.list l) (.int x) = .ok r ∧ SpecGt l x r := by
  have hle := bisectRight_le l x
  by_cases h0 : bisectRightNat l x = l.length
  · refine ⟨.none, ?_, Or.inr ⟨rfl, ?_⟩⟩
    · simp [find_gt, bisect_right, len, ne, pyEq, truthy, h0, bind, Except.bind, pure, Except.pure]
    · intro j hj hlt
      have := le_of_lt_bisectRight l x j (by omega) hj
      omega
  · refine ⟨.int (bisectRightNat l x : Int), ?_, Or.inl ⟨bisectRightNat l x, rfl, by omega, ?_, ?_⟩⟩
    · have : ¬ ((bisectRightNat l x : Int) = (l.length : Int)) := by omega
      simp [find_gt, bisect_right, len, ne, pyEq, truthy, this, bind, Except.bind, pure, Except.pure]
    · exact gt_of_bisectRight_le l hs x _ (Nat.le_refl _) (by omega)
    · intro j hj hij
      have := le_of_lt_bisectRight l x j hij hj
      omega

theorem find_ge_spec (l : List Int) (hs : l.Pairwise (· ≤ ·)) (x : Int) :
    ∃ r, find_ge (.list l) (.int x) = .ok r ∧ SpecGe l x r := by
  have hle := bisectLeft_le l x
  by_cases h0 : bisectLeftNat l x = l.length
  · refine ⟨.none, ?_, Or.inr ⟨rfl, ?_⟩⟩
    · simp [find_ge, bisect_left, len, ne, pyEq, truthy, h0, bind, Except.bind, pure, Except.pure]
    · intro j hj hlt
      have := lt_of_lt_bisectLeft l x j (by omega) hj
      omega
  · refine ⟨.int (bisectLeftNat l x : Int), ?_, Or.inl ⟨bisectLeftNat l x, rfl, by omega, ?_, ?_⟩⟩
    · have : ¬ ((bisectLeftNat l x : Int) = (l.length : Int)) := by omega
      simp [find_ge, bisect_left, len, ne, pyEq, truthy, this, bind, Except.bind, pure, Except.pure]
    · exact ge_of_bisectLeft_le l hs x _ (Nat.le_refl _) (by omega)
    · intro j hj hij
      have := lt_of_lt_bisectLeft l x j hij hj
      omega

theorem find_eq_spec (l : List Int) (hs : l.Pairwise (· ≤ ·)) (x : Int) :
    ∃ r, find_eq (.list l) (.int x) = .ok r ∧ SpecEq l x r := by
  have hle := bisectLeft_le l x
  by_cases h0 : bisectLeftNat l x = l.length
  · refine ⟨.none, ?_, Or.inr ⟨rfl, ?_⟩⟩
    · simp [find_eq, bisect_left, len, ne, pyEq, truthy, h0, bind, Except.bind, pure, Except.pure]
    · intro j hj heq
      have := lt_of_lt_bisectLeft l x j (by omega) hj
      omega
  · have hlt : bisectLeftNat l x < l.length := by omega
    have hne : ¬ ((bisectLeftNat l x : Int) = (l.length : Int)) := by omega
    have hget := getItem_nat l (bisectLeftNat l x) hlt
    by_cases hx : l[bisectLeftNat l x] = x
    · refine ⟨.int (bisectLeftNat l x : Int), ?_, Or.inl ⟨bisectLeftNat l x, rfl, hlt, hx, ?_⟩⟩
      · simp [find_eq, bisect_left, len, ne, eq, pyEq, truthy, hne, hget, hx, bind, Except.bind,
          pure, Except.pure]
      · intro j hj hij heq
        have := lt_of_lt_bisectLeft l x j hij hj
        omega
    · refine ⟨.none, ?_, Or.inr ⟨rfl, ?_⟩⟩
      · simp [find_eq, bisect_left, len, ne, eq, pyEq, truthy, hne, hget, hx, bind, Except.bind,
          pure, Except.pure]
      · intro j hj heq
        by_cases hjb : j < bisectLeftNat l x
        · have := lt_of_lt_bisectLeft l x j hjb hj; omega
        · have h1 := ge_of_bisectLeft_le l hs x (bisectLeftNat l x) (Nat.le_refl _) hlt
          -- l[b] ≥ x, l[b] ≠ x, so l[b] > x; l sorted so l[j] ≥ l[b] > x for j ≥ b
          have h2 : l[bisectLeftNat l x] ≤ l[j] := by
            by_cases e : bisectLeftNat l x = j
            · subst e; exact Int.le_refl _
            · exact List.pairwise_iff_getElem.mp hs _ _ hlt hj (by omega)
          omega

/-- None of the helpers raises on a sorted list of comparable values, and the five results are
    mutually consistent with the `bisect` insertion points (used by C01's time index). -/
theorem find_total (l : List Int) (hs : l.Pairwise (· ≤ ·)) (x : Int) :
    (∃ r, find_eq (.list l) (.int x) = .ok r) ∧ (∃ r, find_lt (.list l) (.int x) = .ok r) ∧
    (∃ r, find_le (.list l) (.int x) = .ok r) ∧ (∃ r, find_gt (.list l) (.int x) = .ok r) ∧
    (∃ r, find_ge (.list l) (.int x) = .ok r) :=
  ⟨(find_eq_spec l hs x).imp fun _ h => h.1, (find_lt_spec l hs x).imp fun _ h => h.1,
   (find_le_spec l hs x).imp fun _ h => h.1, (find_gt_spec l hs x).imp fun _ h => h.1,
   (find_ge_spec l hs x).imp fun _ h => h.1⟩

/-! Non-vacuity: a concrete sorted list with duplicates meets the hypotheses, and the generated
    functions compute the documented positions on it. -/
example : ([1, 2, 2, 5] : List Int).Pairwise (· ≤ ·) := by decide
example : find_eq (.list [1, 2, 2, 5]) (.int 2) = .ok (.int 1) := by rfl
example : find_lt (.list [1, 2, 2, 5]) (.int 2) = .ok (.int 0) := by rfl
example : find_le (.list [1, 2, 2, 5]) (.int 2) = .ok (.int 2) := by rfl
example : find_gt (.list [1, 2, 2, 5]) (.int 2) = .ok (.int 3) := by rfl
example : find_ge (.list [1, 2, 2, 5]) (.int 2) = .ok (.int 1) := by rfl
example : find_gt (.list [1, 2, 2, 5]) (.int 5) = .ok .none := by rfl

end TinyFlux.Props.C18
