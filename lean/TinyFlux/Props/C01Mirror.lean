import TinyFlux.Mirror.Search
import TinyFlux.Mirror.Ops
import TinyFlux.Mirror.Reads
/-!
# C01 over the translated source: the leaf searches of `tinyflux/index.py`

`Index._search_measurement`, `_search_tags`, `_search_fields` translated statement by statement from the working
tree (`Generated/IndexImpl.lean`, regenerated on every run) return, for the query object of any Model leaf query and
any dict-shaped index state, the same set of positions as the Model's `searchMeas / searchTags / searchFields` on the
`abs`-read state — and, by `Lemmas/Search` (L2), on an index that represents the storage those are exactly the
positions of the points that satisfy the leaf. `_search_timestamps` and `_search_helper` stay tied through
`Generated/IndexTables`, the translated `find_*` helpers and the correspondence runs (DESIGN 3.3).
-/
namespace TinyFlux.Props.C01
open TinyFlux.Spec TinyFlux.Model TinyFlux.Mirror TinyFlux.Generated

theorem translated_search_measurement (g : GSelf) (hg : GWF g) (l : Leaf) :
    ∃ r r', IndexImpl._search_measurement g (measQuery l) = .ok r ∧ (Mirror.abs g).searchMeas l = .ok r' ∧ SameSet r r' :=
  search_measurement_ok g hg l

theorem translated_search_tags (g : GSelf) (hg : GWF g) (k : String) (l : Leaf) :
    ∃ r r', IndexImpl._search_tags g (tagQuery k l) = .ok r ∧ (Mirror.abs g).searchTags k l = .ok r' ∧ SameSet r r' :=
  search_tags_ok g hg k l

theorem translated_search_fields (g : GSelf) (hg : GWF g) (k : String) (l : Leaf) :
    ∃ r r', IndexImpl._search_fields g (fieldQuery k l) = .ok r ∧ (Mirror.abs g).searchFields k l = .ok r' ∧ SameSet r r' :=
  search_fields_ok g hg k l

/-- non-vacuity: on the index the translated `build` produces for two concrete points, the translated tag search for
    `k == "v"` does not raise -/
example : ∃ g' r r', IndexImpl.build (IndexImpl.__init__ true)
      [{ time := 5, meas := "a", tags := [("k", some "v")], fields := [] },
       { time := 3, meas := "b", tags := [("k", some "w")], fields := [("f", none)] }] = .ok g'
    ∧ IndexImpl._search_tags g' (tagQuery "k" (.cmp .eq (.str "v"))) = .ok r
    ∧ (Mirror.abs g').searchTags "k" (.cmp .eq (.str "v")) = .ok r' ∧ SameSet r r' := by
  obtain ⟨g', h1, h2, _⟩ := build_ok (IndexImpl.__init__ true)
      [{ time := 5, meas := "a", tags := [("k", some "v")], fields := [] },
       { time := 3, meas := "b", tags := [("k", some "w")], fields := [("f", none)] }]
  obtain ⟨r, r', a, b, c⟩ := translated_search_tags g' h2 "k" (.cmp .eq (.str "v"))
  exact ⟨g', r, r', h1, a, b, c⟩

/-- `TinyFlux.count` of database.py as translated (`Generated/DatabaseImpl.lean`): on every state it returns what the Model's
    `step` computes for `.count` (index path: the number of positions `Index.search` returns; scan path: the number of rows that
    pass the measurement filter and the query), errors included -/
theorem translated_count (norm : Point → Point) (g : DSelf) (q : Query) (m : Option String) :
    DatabaseImpl.count modelExt g q m = liftE (modelCount (absDB norm g) q m) :=
  count_ok norm g q m

/-- `TinyFlux.contains` as translated (it leaves its scan loop at the first match) -/
theorem translated_contains (norm : Point → Point) (g : DSelf) (q : Query) (m : Option String) (b : Bool)
    (h : modelContains (absDB norm g) q m = .ok b) :
    DatabaseImpl.contains modelExt g q m = .ok b :=
  contains_ok norm g q m b h

/-- `modelCount` / `modelContains` are what `State.step` answers -/
theorem model_count_is_step (s : State) (q : Query) (m : Option String) :
    (s.step (.count q m)).2 = State.outOf (modelCount s.readOp q m) (fun n => .nat n)
    ∧ (s.step (.contains q m)).2 = State.outOf (modelContains s.readOp q m) (fun b => .bool b) := by
  constructor <;> simp only [State.step, modelCount, modelContains] <;> split <;>
    (simp only [State.outOf, Except.map]; split <;> simp_all)

end TinyFlux.Props.C01
