import TinyFlux.Mirror.Search
import TinyFlux.Mirror.Ops
import TinyFlux.Mirror.Reads
import TinyFlux.Mirror.Closed
import TinyFlux.Mirror.DbSearch
import TinyFlux.Mirror.DbGet
/-!
# C01 over the translated source: the leaf searches of `tinyflux/index.py`

`Index._search_measurement`, `_search_tags`, `_search_fields` translated statement by statement from the working
tree (`Generated/IndexImpl.lean`, regenerated on every run) return, for the query object of any Model leaf query and
any dict-shaped index state, the same set of positions as the Model's `searchMeas / searchTags / searchFields` on the
`abs`-read state — and, by `Lemmas/Search` (L2), on an index that represents the storage those are exactly the
positions of the points that satisfy the leaf. So do `_search_timestamps` (over the translated `find_*` helpers) and
`_search_helper` / `Index.search`, and `TinyFlux.count` / `contains` of database.py over them (`Mirror/Closed.lean`).
-/
namespace TinyFlux.Props.C01
open TinyFlux.Spec TinyFlux.Model TinyFlux.Mirror TinyFlux.Generated

theorem translated_search_measurement (g : GSelf) (hg : GWF g) (l : Leaf) :
    ∃ r r', IndexImpl._search_measurement g (measQuery l) = .ok r ∧ (Mirror.abs g).searchMeas l = .ok r' ∧ SameSet r r' :=
  search_measurement_ok g hg l

theorem translated_search_tags (g : GSelf) (hg : GWF g) (k : String) (l : Leaf) :
    ∃ r r', IndexImpl._search_tags g (tagQuery k l) = .ok r ∧ (Mirror.abs g).searchTags k l = .ok r' ∧ SameSet r r' :=
  search_tags_ok g hg k l

theorem translated_search_fields (g : GSelf) (hg : GWF g) (k : String) (l : Leaf) :
    ∃ r r', IndexImpl._search_fields g (fieldQuery k l) = .ok r ∧ (Mirror.abs g).searchFields k l = .ok r' ∧ SameSet r r' :=
  search_fields_ok g hg k l

/-- non-vacuity: on the index the translated `build` produces for two concrete points, the translated tag search for
    `k == "v"` does not raise -/
example : ∃ g' r r', IndexImpl.build (IndexImpl.__init__ true)
      [{ time := 5, meas := "a", tags := [("k", some "v")], fields := [] },
       { time := 3, meas := "b", tags := [("k", some "w")], fields := [("f", none)] }] = .ok g'
    ∧ IndexImpl._search_tags g' (tagQuery "k" (.cmp .eq (.str "v"))) = .ok r
    ∧ (Mirror.abs g').searchTags "k" (.cmp .eq (.str "v")) = .ok r' ∧ SameSet r r' := by
  obtain ⟨g', h1, h2, _⟩ := build_ok (IndexImpl.__init__ true)
      [{ time := 5, meas := "a", tags := [("k", some "v")], fields := [] },
       { time := 3, meas := "b", tags := [("k", some "w")], fields := [("f", none)] }]
  obtain ⟨r, r', a, b, c⟩ := translated_search_tags g' h2 "k" (.cmp .eq (.str "v"))
  exact ⟨g', r, r', h1, a, b, c⟩

/-- `TinyFlux.count` of database.py as translated (`Generated/DatabaseImpl.lean`): on every state it returns what the Model's
    `step` computes for `.count` (index path: the number of positions `Index.search` returns; scan path: the number of rows that
    pass the measurement filter and the query), errors included -/
theorem translated_count (norm : Point → Point) (g : DSelf) (q : Query) (m : Option String) :
    DatabaseImpl.count modelExt g q m = liftE (modelCount (absDB norm g) q m) :=
  count_ok norm g q m

/-- `TinyFlux.contains` as translated (it leaves its scan loop at the first match) -/
theorem translated_contains (norm : Point → Point) (g : DSelf) (q : Query) (m : Option String) (b : Bool)
    (h : modelContains (absDB norm g) q m = .ok b) :
    DatabaseImpl.contains modelExt g q m = .ok b :=
  contains_ok norm g q m b h

/-- `modelCount` / `modelContains` are what `State.step` answers -/
theorem model_count_is_step (s : State) (q : Query) (m : Option String) :
    (s.step (.count q m)).2 = State.outOf (modelCount s.readOp q m) (fun n => .nat n)
    ∧ (s.step (.contains q m)).2 = State.outOf (modelContains s.readOp q m) (fun b => .bool b) := by
  constructor <;> simp only [State.step, modelCount, modelContains] <;> split <;>
    (simp only [State.outOf, Except.map]; split <;> simp_all)

/-- `Index._search_timestamps` as translated: operator selection, the six bisection branches over the translated `find_*`
    helpers (with the scan of the run of equal timestamps), the generic branch — the Model's `searchTs`, as a set -/
theorem translated_search_timestamps (g : GSelf) (hlen : g._timestamps.length = g._storage_pos_sorted_by_ts.length) (l : Leaf) :
    match (Mirror.abs g).searchTs l with
    | .ok r' => ∃ r, IndexImpl._search_timestamps g (timeQuery l) = .ok r ∧ SameSet r r'
    | .error _ => ∃ e, IndexImpl._search_timestamps g (timeQuery l) = .error e :=
  search_timestamps_ok g hlen l

/-- `Index.search` as translated (`_search_helper`: the recursion over `& | ~`, `~FieldQuery` = every item, the dispatch
    on the point attribute; `IndexResult.__and__/__or__/__invert__`): the Model's `Index.search`, as a set, for every query -/
theorem translated_index_search (g : GSelf) (hg : GWF g) (hlen : g._timestamps.length = g._storage_pos_sorted_by_ts.length)
    (q : Query) :
    match (Mirror.abs g).search q with
    | .ok r' => ∃ r, IndexImpl.search g (queryObj q) = .ok r ∧ SameSet r._items r' ∧ r._index_count = g._num_items
    | .error _ => ∃ e, IndexImpl.search g (queryObj q) = .error e :=
  search_ok g hg hlen q

/-- `TinyFlux.count` / `contains` as translated, over the *translated* `Index.search` (`translatedExt`): every method a
    count runs through — count, Index.search, _search_helper, the four leaf searches, find_* — is generated code, and the answer is
    the Model's -/
theorem translated_count_closed (norm : Point → Point) (g : DSelf) (q : Query) (m : Option String)
    (hg : GWF g._index) (hts : g._index._timestamps.length = g._index._storage_pos_sorted_by_ts.length) :
    match modelCount (absDB norm g) q m with
    | .ok n => DatabaseImpl.count translatedExt g q m = .ok n
    | .error _ => ∃ e', DatabaseImpl.count translatedExt g q m = .error e' :=
  count_closed norm g q m hg hts

theorem translated_contains_closed (norm : Point → Point) (g : DSelf) (q : Query) (m : Option String) (b : Bool)
    (hg : GWF g._index) (hts : g._index._timestamps.length = g._index._storage_pos_sorted_by_ts.length)
    (h : modelContains (absDB norm g) q m = .ok b) :
    DatabaseImpl.contains translatedExt g q m = .ok b :=
  contains_closed norm g q m b hg hts h

/-- `TinyFlux.search` of database.py as translated (type check of the query, index path with the fall-back to a scan when
    every position matches and the early exit once all positions are seen, scan path, the time check, the stable sort by time):
    on every state what the Model's `step` computes for `.search` (`model_search_is_the_models_step`), errors included — which
    `search_refines` (Props/C01.lean) proves to be exactly the stored points that satisfy the query -/
theorem translated_search (norm : Point → Point) (g : DSelf) (q : Query) (m : Option String) (sorted : Bool) :
    DatabaseImpl.search modelExt g q m sorted = liftE (modelSearch (absDB norm g) q m sorted) :=
  db_search_ok norm g q m sorted

/-- … and over the translated `Index.search`: generated code from `TinyFlux.search` down to `find_*` -/
theorem translated_search_closed (norm : Point → Point) (g : DSelf) (q : Query) (m : Option String) (sorted : Bool)
    (hg : GWF g._index) (hts : g._index._timestamps.length = g._index._storage_pos_sorted_by_ts.length) :
    match modelSearch (absDB norm g) q m sorted with
    | .ok l => DatabaseImpl.search translatedExt g q m sorted = .ok l
    | .error _ => ∃ e', DatabaseImpl.search translatedExt g q m sorted = .error e' :=
  db_search_closed norm g q m sorted hg hts

theorem model_search_is_the_models_step (s : State) (q : Query) (m : Option String) (sorted : Bool) :
    (s.step (.search q m sorted)).2 = State.outOf (modelSearch s.readOp q m sorted) (fun l => .points l) :=
  model_search_is_step s q m sorted

/-- `TinyFlux.get` of database.py as translated (it leaves its loop at the first point found; `None` when there is none):
    the first element of what the Model's `found` computes (`model_get_is_the_models_step`), whenever the Model's evaluation
    does not raise on a later row — over the Model's and over the translated `Index.search` -/
theorem translated_get (norm : Point → Point) (g : DSelf) (q : Query) (m : Option String) (r : Option Point)
    (h : modelGet (absDB norm g) q m = .ok r) :
    DatabaseImpl.get modelExt g q m = .ok r :=
  db_get_ok norm g q m r h

theorem translated_get_closed (norm : Point → Point) (g : DSelf) (q : Query) (m : Option String) (r : Option Point)
    (hg : GWF g._index) (hts : g._index._timestamps.length = g._index._storage_pos_sorted_by_ts.length)
    (h : modelGet (absDB norm g) q m = .ok r) :
    DatabaseImpl.get translatedExt g q m = .ok r :=
  db_get_closed norm g q m r hg hts h

theorem model_get_is_the_models_step (s : State) (q : Query) (m : Option String) :
    (s.step (.get q m)).2 = State.outOf (modelGet s.readOp q m) (fun p => .point p) :=
  model_get_is_step s q m

end TinyFlux.Props.C01
