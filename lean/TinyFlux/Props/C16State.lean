import TinyFlux.Generated.Footprint
import TinyFlux.Model.Footprint

/-! # C16: the state the code keeps is the state the Model has (CSV storage, database)

Over `Generated/Footprint.lean` (regenerated from the source on every run). A cache, a memo table or a flag added
to one of these classes or modules is state no theorem of this property covers: these stop checking. -/
namespace TinyFlux.Props.C16
open TinyFlux

/-- every attribute these classes assign is a component of the Model's state (`Model/Footprint.lean` says which) -/
theorem state_is_the_models_state :
    Generated.classState.lookup "storages.CSVStorage" = some Model.Footprint.csvStorage ∧
    Generated.classState.lookup "database.TinyFlux" = some Model.Footprint.tinyFlux := by decide

/-- no module-level variable, caching decorator, `global`/`nonlocal` or mutable default argument beyond the
    modelled ones; no class the Model does not know -/
theorem no_hidden_state :
    Generated.moduleState.lookup "storages" = Model.Footprint.modules.lookup "storages" ∧
    Generated.moduleState.lookup "database" = Model.Footprint.modules.lookup "database" ∧
    Generated.classState.map (·.1) = Model.Footprint.classNames := by decide

end TinyFlux.Props.C16
