import TinyFlux.Audit.Tool
import TinyFlux.Props.C11
#audit TinyFlux.Props.C11
