import TinyFlux.Audit.Tool
import TinyFlux.Props.C11
import TinyFlux.Props.C11State
import TinyFlux.Props.C11Witness
#audit TinyFlux.Props.C11
