import TinyFlux.Audit.Tool
import TinyFlux.Props.C11
import TinyFlux.Props.C11State
#audit TinyFlux.Props.C11
