import TinyFlux.Audit.Tool
import TinyFlux.Props.C02
import TinyFlux.Props.C02State
#audit TinyFlux.Props.C02
