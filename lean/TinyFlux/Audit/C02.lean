import TinyFlux.Audit.Tool
import TinyFlux.Props.C02
#audit TinyFlux.Props.C02
