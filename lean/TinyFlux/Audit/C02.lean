import TinyFlux.Audit.Tool
import TinyFlux.Props.C02
import TinyFlux.Props.C02State
import TinyFlux.Props.C02Witness
import TinyFlux.Props.C02Mirror
#audit TinyFlux.Props.C02
