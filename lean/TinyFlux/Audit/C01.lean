import TinyFlux.Audit.Tool
import TinyFlux.Props.C01
import TinyFlux.Props.C01State
#audit TinyFlux.Props.C01
