import TinyFlux.Audit.Tool
import TinyFlux.Props.C01
import TinyFlux.Props.C01State
import TinyFlux.Props.C01Witness
import TinyFlux.Props.C01Mirror
#audit TinyFlux.Props.C01
