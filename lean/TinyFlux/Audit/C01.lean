import TinyFlux.Audit.Tool
import TinyFlux.Props.C01
#audit TinyFlux.Props.C01
