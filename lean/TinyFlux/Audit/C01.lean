import TinyFlux.Audit.Tool
import TinyFlux.Props.C01
import TinyFlux.Props.C01State
import TinyFlux.Props.C01Witness
#audit TinyFlux.Props.C01
