import TinyFlux.Audit.Tool
import TinyFlux.Props.C07
import TinyFlux.Props.C07State
import TinyFlux.Props.C07Witness
import TinyFlux.Props.C07Mirror
#audit TinyFlux.Props.C07
