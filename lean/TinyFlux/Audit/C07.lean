import TinyFlux.Audit.Tool
import TinyFlux.Props.C07
import TinyFlux.Props.C07State
#audit TinyFlux.Props.C07
