import TinyFlux.Audit.Tool
import TinyFlux.Props.C07
#audit TinyFlux.Props.C07
