import Lean
/-! `#audit NS` prints one JSON line per theorem declared under namespace `NS` (in this or any
    imported module): its name and the axioms it depends on. Used by `./check` to count
    obligations and to verify that no theorem depends on `sorryAx` or on anything but the three
    standard axioms. -/
open Lean Elab Command

elab "#audit " ns:ident : command => do
  let env ← getEnv
  let nsName := ns.getId
  let names := env.constants.fold (init := (#[] : Array Name)) fun acc n ci =>
    if nsName.isPrefixOf n && !n.isInternal then
      match ci with
      | .thmInfo _ =>
        -- equation lemmas generated for a definition (`f.eq_1`, `f.eq_def`) are not obligations
        let isEqn := match n with
          | .str p s => (s.startsWith "eq_") && (match env.find? p with | some (.defnInfo _) => true | _ => false)
          | _ => false
        if isEqn then acc else acc.push n
      | _ => acc
    else acc
  let sorted := names.qsort (fun a b => a.toString < b.toString)
  for n in sorted do
    let axs ← Lean.collectAxioms n
    let axsStr := ", ".intercalate (axs.toList.map (fun a => s!"\"{a}\""))
    logInfo m!"AUDIT \{\"theorem\": \"{n}\", \"axioms\": [{axsStr}]}"
