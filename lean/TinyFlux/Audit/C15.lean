import TinyFlux.Audit.Tool
import TinyFlux.Props.C15
import TinyFlux.Props.C15EndToEnd
import TinyFlux.Props.C15State
import TinyFlux.Props.C15Witness
#audit TinyFlux.Props.C15
