import TinyFlux.Audit.Tool
import TinyFlux.Props.C15
import TinyFlux.Props.C15EndToEnd
#audit TinyFlux.Props.C15
