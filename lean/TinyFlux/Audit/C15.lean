import TinyFlux.Audit.Tool
import TinyFlux.Props.C15
#audit TinyFlux.Props.C15
