import TinyFlux.Audit.Tool
import TinyFlux.Props.C03
#audit TinyFlux.Props.C03
