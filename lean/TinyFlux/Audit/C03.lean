import TinyFlux.Audit.Tool
import TinyFlux.Props.C03
import TinyFlux.Props.C03State
#audit TinyFlux.Props.C03
