import TinyFlux.Audit.Tool
import TinyFlux.Props.C03
import TinyFlux.Props.C03State
import TinyFlux.Props.C03Witness
import TinyFlux.Props.C03Mirror
#audit TinyFlux.Props.C03
