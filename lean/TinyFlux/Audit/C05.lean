import TinyFlux.Audit.Tool
import TinyFlux.Props.C05
import TinyFlux.Props.C05State
import TinyFlux.Props.C05Witness
#audit TinyFlux.Props.C05
