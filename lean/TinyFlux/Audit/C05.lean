import TinyFlux.Audit.Tool
import TinyFlux.Props.C05
import TinyFlux.Props.C05State
#audit TinyFlux.Props.C05
