import TinyFlux.Audit.Tool
import TinyFlux.Props.C05
#audit TinyFlux.Props.C05
