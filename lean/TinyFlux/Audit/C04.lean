import TinyFlux.Audit.Tool
import TinyFlux.Props.C04
import TinyFlux.Props.C04EndToEnd
#audit TinyFlux.Props.C04
