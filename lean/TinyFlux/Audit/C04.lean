import TinyFlux.Audit.Tool
import TinyFlux.Props.C04
import TinyFlux.Props.C04EndToEnd
import TinyFlux.Props.C04State
import TinyFlux.Props.C04Witness
#audit TinyFlux.Props.C04
