import TinyFlux.Audit.Tool
import TinyFlux.Props.C04
#audit TinyFlux.Props.C04
