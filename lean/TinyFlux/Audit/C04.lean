import TinyFlux.Audit.Tool
import TinyFlux.Props.C04
import TinyFlux.Props.C04EndToEnd
import TinyFlux.Props.C04State
#audit TinyFlux.Props.C04
