import TinyFlux.Audit.Tool
import TinyFlux.Props.C12
import TinyFlux.Props.C12EndToEnd
import TinyFlux.Props.C12State
#audit TinyFlux.Props.C12
