import TinyFlux.Audit.Tool
import TinyFlux.Props.C12
import TinyFlux.Props.C12EndToEnd
import TinyFlux.Props.C12State
import TinyFlux.Props.C12Witness
#audit TinyFlux.Props.C12
