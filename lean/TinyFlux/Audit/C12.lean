import TinyFlux.Audit.Tool
import TinyFlux.Props.C12
import TinyFlux.Props.C12EndToEnd
#audit TinyFlux.Props.C12
