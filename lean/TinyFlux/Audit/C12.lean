import TinyFlux.Audit.Tool
import TinyFlux.Props.C12
#audit TinyFlux.Props.C12
