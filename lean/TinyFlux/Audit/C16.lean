import TinyFlux.Audit.Tool
import TinyFlux.Props.C16
#audit TinyFlux.Props.C16
