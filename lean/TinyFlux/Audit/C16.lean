import TinyFlux.Audit.Tool
import TinyFlux.Props.C16
import TinyFlux.Props.C16EndToEnd
import TinyFlux.Props.C16State
import TinyFlux.Props.C16Witness
#audit TinyFlux.Props.C16
