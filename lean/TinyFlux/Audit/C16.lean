import TinyFlux.Audit.Tool
import TinyFlux.Props.C16
import TinyFlux.Props.C16EndToEnd
#audit TinyFlux.Props.C16
