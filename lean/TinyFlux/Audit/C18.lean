import TinyFlux.Audit.Tool
import TinyFlux.Props.C18
#audit TinyFlux.Props.C18
