import TinyFlux.Audit.Tool
import TinyFlux.Props.C18
import TinyFlux.Props.C18State
#audit TinyFlux.Props.C18
