import TinyFlux.Audit.Tool
import TinyFlux.Props.C17
import TinyFlux.Props.C17State
import TinyFlux.Props.C17Witness
#audit TinyFlux.Props.C17
