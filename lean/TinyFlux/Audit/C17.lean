import TinyFlux.Audit.Tool
import TinyFlux.Props.C17
#audit TinyFlux.Props.C17
