import TinyFlux.Audit.Tool
import TinyFlux.Props.C17
import TinyFlux.Props.C17State
#audit TinyFlux.Props.C17
