import TinyFlux.Audit.Tool
import TinyFlux.Props.C14
#audit TinyFlux.Props.C14
