import TinyFlux.Audit.Tool
import TinyFlux.Props.C14
import TinyFlux.Props.C14State
import TinyFlux.Props.C14Witness
#audit TinyFlux.Props.C14
