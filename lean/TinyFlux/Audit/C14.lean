import TinyFlux.Audit.Tool
import TinyFlux.Props.C14
import TinyFlux.Props.C14State
#audit TinyFlux.Props.C14
