import TinyFlux.Audit.Tool
import TinyFlux.Props.C08
#audit TinyFlux.Props.C08
