import TinyFlux.Audit.Tool
import TinyFlux.Props.C08
import TinyFlux.Props.C08State
#audit TinyFlux.Props.C08
