import TinyFlux.Audit.Tool
import TinyFlux.Props.C08
import TinyFlux.Props.C08State
import TinyFlux.Props.C08Witness
import TinyFlux.Props.C08Mirror
#audit TinyFlux.Props.C08
