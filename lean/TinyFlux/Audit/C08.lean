import TinyFlux.Audit.Tool
import TinyFlux.Props.C08
import TinyFlux.Props.C08State
import TinyFlux.Props.C08Witness
#audit TinyFlux.Props.C08
