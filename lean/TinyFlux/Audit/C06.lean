import TinyFlux.Audit.Tool
import TinyFlux.Props.C06
import TinyFlux.Props.C06State
#audit TinyFlux.Props.C06
