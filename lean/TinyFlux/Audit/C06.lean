import TinyFlux.Audit.Tool
import TinyFlux.Props.C06
#audit TinyFlux.Props.C06
