import TinyFlux.Audit.Tool
import TinyFlux.Props.C06
import TinyFlux.Props.C06State
import TinyFlux.Props.C06Witness
#audit TinyFlux.Props.C06
