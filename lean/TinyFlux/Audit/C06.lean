import TinyFlux.Audit.Tool
import TinyFlux.Props.C06
import TinyFlux.Props.C06State
import TinyFlux.Props.C06Witness
import TinyFlux.Props.C06Mirror
#audit TinyFlux.Props.C06
