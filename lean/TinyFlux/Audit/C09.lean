import TinyFlux.Audit.Tool
import TinyFlux.Props.C09
import TinyFlux.Props.C09State
#audit TinyFlux.Props.C09
