import TinyFlux.Audit.Tool
import TinyFlux.Props.C09
#audit TinyFlux.Props.C09
