import TinyFlux.Audit.Tool
import TinyFlux.Props.C13
#audit TinyFlux.Props.C13
