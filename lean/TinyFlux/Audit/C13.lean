import TinyFlux.Audit.Tool
import TinyFlux.Props.C13
import TinyFlux.Props.C13EndToEnd
import TinyFlux.Props.C13State
import TinyFlux.Props.C13Witness
#audit TinyFlux.Props.C13
