import TinyFlux.Audit.Tool
import TinyFlux.Props.C13
import TinyFlux.Props.C13EndToEnd
#audit TinyFlux.Props.C13
