import TinyFlux.Audit.Tool
import TinyFlux.Props.C10
import TinyFlux.Props.C10State
import TinyFlux.Props.C10Witness
#audit TinyFlux.Props.C10
