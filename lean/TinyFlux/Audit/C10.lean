import TinyFlux.Audit.Tool
import TinyFlux.Props.C10
#audit TinyFlux.Props.C10
