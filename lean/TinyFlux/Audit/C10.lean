import TinyFlux.Audit.Tool
import TinyFlux.Props.C10
import TinyFlux.Props.C10State
#audit TinyFlux.Props.C10
