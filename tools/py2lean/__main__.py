"""py2lean: regenerate lean/TinyFlux/Generated/*.lean from $VERIF_REPO (default /repo).

Usage: python3 tools/py2lean [--out DIR] [--only NAME ...]

Writes a file only when its content changed (so lake does not rebuild needlessly).
Prints one JSON line per generated module: {"module":..., "status":"ok"|"error", "changed":bool, "error":...}
Exit status 0 even when an extraction fails: the caller decides what a failed
extraction means (it is a broken obligation, handled by the failing-input search).
On failure the module is written as a stub that does not define the expected
names, so that dependent theorems fail to build instead of silently using stale
definitions.
"""
import json
import os
import sys

HERE = os.path.dirname(os.path.abspath(__file__))
sys.path.insert(0, HERE)

import classes  # noqa: E402
import funcs  # noqa: E402
import tables  # noqa: E402

VERIF = os.path.dirname(os.path.dirname(HERE))


def write_if_changed(path, text):
    old = None
    if os.path.exists(path):
        with open(path, encoding="utf-8") as f:
            old = f.read()
    if old == text:
        return False
    os.makedirs(os.path.dirname(path), exist_ok=True)
    with open(path, "w", encoding="utf-8") as f:
        f.write(text)
    return True


def main(argv):
    repo = os.environ.get("VERIF_REPO", "/repo")
    out = os.path.join(VERIF, "lean", "TinyFlux", "Generated")
    only = None
    i = 0
    while i < len(argv):
        if argv[i] == "--out":
            out = argv[i + 1]
            i += 2
        elif argv[i] == "--only":
            only = set(argv[i + 1 :])
            break
        else:
            i += 1

    def src(name):
        with open(os.path.join(repo, "tinyflux", name), encoding="utf-8") as f:
            return f.read()

    jobs = {
        "Utils": lambda: funcs.generate_utils(src("utils.py")),
        "IndexImpl": lambda: classes.generate_index(src("index.py")),
        "DatabaseImpl": lambda: classes.generate_database(src("database.py")),
    }
    jobs.update(tables.jobs(src))
    ok = True
    for mod, job in jobs.items():
        if only and mod not in only:
            continue
        path = os.path.join(out, mod + ".lean")
        try:
            text = job()
            changed = write_if_changed(path, text)
            print(json.dumps({"module": mod, "status": "ok", "changed": changed}))
        except Exception as e:  # extraction error
            ok = False
            stub = (
                f"/-! GENERATED stub: extraction of {mod} failed: "
                f"{type(e).__name__}: {str(e)[:300].replace('-/', '- /')} -/\n"
                "namespace TinyFlux.Generated\n"
                f"def extractionFailed_{mod} : Unit := ()\n"
                "end TinyFlux.Generated\n"
            )
            changed = write_if_changed(path, stub)
            print(
                json.dumps(
                    {
                        "module": mod,
                        "status": "error",
                        "changed": changed,
                        "error": f"{type(e).__name__}: {e}"[:500],
                    }
                )
            )
    return 0


if __name__ == "__main__":
    sys.exit(main(sys.argv[1:]))
