"""Class mode of the translator: methods of `tinyflux.index.Index` -> typed Lean functions.

Every listed method is translated statement by statement into a function over a record `Self` of
the object's attributes, in the `Except PyErr` monad of `TinyFlux/Py/Typed.lean`:

  * types come from the annotations in the source (class-level attribute annotations, parameter
    and return annotations, annotated locals); `Dict` is an insertion-ordered association list,
    `Set`/`List`/`Iterable` are lists, `int` is `Nat`, `float`/`datetime` are integer microseconds;
  * assignments re-bind (`let x := ...`, `let self := { self with ... }`), an `if` that falls
    through returns the variables it assigns, a `for` loop is a `List.foldlM` over the variables
    its body assigns, `continue`/`return`/`raise` end a branch;
  * a mutation through a path (`self._tags[k][v].append(i)`) is a nested `updItem`, which raises
    `KeyError` like the code does;
  * every Python operation becomes a combinator of `Py/Typed.lean`, resolved by Lean from the types.

Anything outside the subset raises `Unsupported` (an extraction error: the module becomes a stub,
the theorems over it stop building and the check falls into its failing-input search).
Statement order, conditions, operands, slices and which variable is used where all end up in the
generated definitions, which is what the mirror theorems (`Lemmas/IndexMirror.lean`) speak about.
"""
import ast


class Unsupported(Exception):
    pass


# ---------------------------------------------------------------- types

_SIMPLE = {
    "int": "Nat",
    "str": "String",
    "bool": "Bool",
    "float": "Int",  # a POSIX timestamp: integer microseconds in the model
    "datetime": "DateTime",
    "TagSet": ("AL", "String", ("Option", "String")),
    "FieldSet": ("AL", "String", ("Option", "Num")),
    "FieldValue": ("Option", "Num"),
    "Point": "Point",
    "SimpleQuery": "SimpleQuery",  # the record of what the index uses of a query object (Py/Typed.lean)
    # database layer: the index object is the translated class, storage and query objects are foreign (Py/Typed.lean, Ext)
    "Index": "IndexImpl.Self",
    "Storage": "Storage",
    "Query": "Q",
    "Measurement": "Unit",
    "IndexResult": "IndexResult",
    "QueryObj": "QueryObj",
}


def parse_type(a):
    """annotation -> structured type: a Lean name, or ('List', t) / ('Option', t) / ('AL', k, v) / ('Prod', a, b)"""
    if isinstance(a, ast.Name):
        if a.id in _SIMPLE:
            return _SIMPLE[a.id]
        raise Unsupported(f"type {a.id}")
    if isinstance(a, ast.Constant) and a.value is None:
        return "Unit"
    if isinstance(a, ast.Constant) and isinstance(a.value, str) and a.value in _SIMPLE:
        return _SIMPLE[a.value]        # a forward reference: "IndexResult"
    if isinstance(a, ast.Subscript) and isinstance(a.value, ast.Name):
        h = a.value.id
        args = a.slice.elts if isinstance(a.slice, ast.Tuple) else [a.slice]
        if h in ("List", "Set", "Iterable") and len(args) == 1:
            return ("List", parse_type(args[0]))
        if h in ("Optional", "Union"):
            rest = [x for x in args if not (isinstance(x, ast.Constant) and x.value is None)]
            if (h == "Optional" and len(args) == 1) or (h == "Union" and len(args) == 2 and len(rest) == 1):
                inner = rest[0]
                if isinstance(inner, ast.Name) and inner.id == "float":
                    return ("Option", "Num")  # an optional float is a field value, not a timestamp
                return ("Option", parse_type(inner))
        if h == "Dict" and len(args) == 2:
            return ("AL", parse_type(args[0]), parse_type(args[1]))
        if h == "Tuple" and len(args) == 2:
            return ("Prod", parse_type(args[0]), parse_type(args[1]))
    raise Unsupported("type " + ast.dump(a))


def render(t):
    if isinstance(t, str):
        return t
    if t[0] == "Prod":
        return f"({render(t[1])} × {render(t[2])})"
    return "(" + t[0] + " " + " ".join(render(x) for x in t[1:]) + ")"


def lean_type(a):
    return render(parse_type(a))


def elem_type(t):
    """element type when iterating a value of type t (None if unknown)"""
    if isinstance(t, tuple) and t[0] == "List":
        return t[1]
    if isinstance(t, tuple) and t[0] == "AL":
        return t[1]  # iterating a dict yields its keys
    if t == "Storage":
        return "Point"  # iterating a storage object yields its rows (the decoded view: a point)
    return None


# ---------------------------------------------------------------- analysis


def _is_self_attr(e):
    return isinstance(e, ast.Attribute) and isinstance(e.value, ast.Name) and e.value.id == "self"


def path_root(e):
    """root variable ('self' or a local name) of an lvalue / receiver path, or None"""
    while isinstance(e, ast.Subscript):
        e = e.value
    if _is_self_attr(e):
        return "self"
    if isinstance(e, ast.Name):
        return e.id
    return None


_MUTATING_METHODS = ("append", "add", "extend", "sort")


def assigned(stmts, mutators):
    """names ('self' included) that the statements (re)bind, in first-occurrence order"""
    out = []

    def add(n):
        if n is not None and n not in out:
            out.append(n)

    for s in stmts:
        if isinstance(s, ast.Assign):
            for t in s.targets:
                if isinstance(t, ast.Name):
                    add(t.id)
                else:
                    add(path_root(t))
        elif isinstance(s, ast.AnnAssign):
            if isinstance(s.target, ast.Name):
                add(s.target.id)
            else:
                add(path_root(s.target))
        elif isinstance(s, ast.AugAssign):
            add(s.target.id if isinstance(s.target, ast.Name) else path_root(s.target))
        elif isinstance(s, ast.Expr) and isinstance(s.value, ast.Call) and isinstance(s.value.func, ast.Attribute):
            f = s.value.func
            if _is_self_attr(f) and f.attr in mutators:
                add("self")
            elif _is_self_attr(f.value) and f.value.attr in ("_index", "_storage"):
                add("self")      # a method of a nested object changes that object
            elif f.attr in _MUTATING_METHODS + ("clear",):
                add(path_root(f.value))
        elif isinstance(s, ast.Delete):
            for t in s.targets:
                add(path_root(t))
        elif isinstance(s, ast.Return) and isinstance(s.value, ast.Call) and _is_self_attr(s.value.func) \
                and s.value.func.attr in ("_remove_helper",):
            add("self")
        elif isinstance(s, ast.If):
            for n in assigned(s.body, mutators) + assigned(s.orelse, mutators):
                add(n)
        elif isinstance(s, ast.For):
            tnames = {n.id for n in ast.walk(s.target) if isinstance(n, ast.Name)}
            for n in assigned(s.body, mutators):
                if n not in tnames:
                    add(n)
    return out


def exits(stmts):
    """the block always ends in return / raise / continue"""
    if not stmts:
        return False
    s = stmts[-1]
    if isinstance(s, (ast.Return, ast.Raise, ast.Continue, ast.Break)):
        return True
    if isinstance(s, ast.If):
        return exits(s.body) and exits(s.orelse)
    return False


def may_exit(stmts):
    """some path through the block ends in return / raise / continue (not counting nested loops' own `continue`)"""
    for s in stmts:
        if isinstance(s, (ast.Return, ast.Raise, ast.Continue, ast.Break)):
            return True
        if isinstance(s, ast.If) and (may_exit(s.body) or may_exit(s.orelse)):
            return True
        if isinstance(s, ast.Try) and (may_exit(s.body) or any(may_exit(h.body) for h in s.handlers)):
            return True
    return False


# ---------------------------------------------------------------- expressions

_POINT_ATTR = {"measurement": "meas", "tags": "tags", "fields": "fields"}


_LEAN_WORDS = {"match", "fun", "at", "from", "have", "show", "open", "end", "with", "by", "where", "calc", "mut", "then"}


def nm(name):
    """a Python identifier that is a Lean keyword gets a trailing underscore"""
    return name + "_" if name in _LEAN_WORDS else name


class UnAlias(ast.stmt):
    """synthetic statement: the narrowed reading of an Optional local ends here"""
    _fields = ("name", "saved")


class Fn:
    """translation state of one method"""

    def __init__(self, cls, fn):
        self.cls = cls
        self.fn = fn
        self.ret = None
        self.alias = {}
        self.unpacked = set()
        self.env = {}  # local name -> structured type (best effort; used to tell a dict from a list of pairs)

    def ty(self, e):
        """structured type of an expression, or None when unknown"""
        if isinstance(e, ast.Name):
            return self.env.get(e.id)
        if _is_self_attr(e):
            return self.cls.attr_types.get(e.attr)
        if isinstance(e, ast.Attribute) and isinstance(e.value, ast.Name) and self.env.get(e.value.id) == "Point":
            return {"tags": _SIMPLE["TagSet"], "fields": _SIMPLE["FieldSet"], "measurement": "String"}.get(e.attr)
        if isinstance(e, ast.Subscript) and not isinstance(e.slice, ast.Slice):
            t = self.ty(e.value)
            if isinstance(t, tuple) and t[0] == "AL":
                return t[2]
            if isinstance(t, tuple) and t[0] == "List":
                return t[1]
            if isinstance(t, tuple) and t[0] == "Prod" and isinstance(e.slice, ast.Constant) and e.slice.value in (0, 1):
                return t[1 + e.slice.value]
            return None
        if isinstance(e, ast.Call) and isinstance(e.func, ast.Attribute) and _is_self_attr(e.func.value):
            if e.func.value.attr == "_storage" and e.func.attr == "_deserialize_measurement":
                return "String"
            if e.func.value.attr == "_storage" and e.func.attr == "_deserialize_storage_item":
                return "Point"
            if e.func.value.attr == "_storage" and e.func.attr == "_deserialize_timestamp":
                return "DateTime"
            if e.func.value.attr == "_storage" and e.func.attr == "read":
                return ("List", "Point")
            if e.func.value.attr == "_index" and e.func.attr == "search":
                return "IndexResult"
        if isinstance(e, ast.Attribute) and self.ty(e.value) == "IndexResult" and e.attr in ("_items", "items"):
            return ("List", "Nat")
        if isinstance(e, ast.Attribute) and isinstance(e.value, ast.Name) and e.value.id == "operator":
            return "BoolOperator" if e.attr.endswith("_") else "Operator"
        if isinstance(e, ast.Attribute) and isinstance(e.value, ast.Name) and e.value.id in self.unpacked:
            return {"operator": "BoolOperator", "query1": "QueryObj", "query2": "QueryObj"}.get(e.attr)
        if isinstance(e, ast.Call) and isinstance(e.func, ast.Attribute) and _is_self_attr(e.func) and e.func.attr == "_search_helper":
            return "IndexResult"
        if isinstance(e, ast.Call) and isinstance(e.func, ast.Name) and e.func.id == "IndexResult":
            return "IndexResult"
        if isinstance(e, ast.Attribute) and isinstance(e.value, ast.Name) and self.env.get(e.value.id) == "SimpleQuery":
            return {"_operator": "Operator", "_rhs": "Rhs"}.get(e.attr)
        if isinstance(e, ast.IfExp) and isinstance(e.orelse, ast.Constant) and e.orelse.value is None:
            t = self.ty(e.body)
            return t if (isinstance(t, tuple) and t[0] == "Option") or t is None else ("Option", t)
        if isinstance(e, ast.Call) and isinstance(e.func, ast.Name) and e.func.id in ("find_eq", "find_lt", "find_le", "find_gt", "find_ge"):
            return ("Option", "Nat")
        if isinstance(e, ast.Call) and isinstance(e.func, ast.Attribute) and e.func.attr == "timestamp":
            return "Int"
        if isinstance(e, ast.Compare) and len(e.ops) == 1 and isinstance(e.ops[0], ast.Eq) and isinstance(e.left, ast.Call) \
                and isinstance(e.left.func, ast.Name) and e.left.func.id == "MeasurementQuery":
            return "Q"
        if isinstance(e, ast.BinOp) and isinstance(e.op, (ast.BitAnd, ast.BitOr)) and self.ty(e.left) == "IndexResult":
            return "IndexResult"
        if isinstance(e, ast.UnaryOp) and isinstance(e.op, ast.Invert) and self.ty(e.operand) == "IndexResult":
            return "IndexResult"
        if isinstance(e, ast.BinOp) and isinstance(e.op, ast.BitAnd) and self.ty(e.left) == "Q":
            return "Q"
        if isinstance(e, ast.Call) and isinstance(e.func, ast.Attribute) and not e.args:
            t = self.ty(e.func.value)
            if isinstance(t, tuple) and t[0] == "AL":
                if e.func.attr == "items":
                    return ("List", ("Prod", t[1], t[2]))
                if e.func.attr == "keys":
                    return ("List", t[1])
                if e.func.attr == "values":
                    return ("List", t[2])
            return None
        if isinstance(e, ast.Call) and isinstance(e.func, ast.Name):
            if e.func.id == "zip" and len(e.args) == 2:
                a, b = (elem_type(self.ty(x)) for x in e.args)
                return ("List", ("Prod", a, b)) if a and b else None
            if e.func.id == "enumerate" and len(e.args) == 1 and self.ty(e.args[0]) == "Storage":
                return ("List", ("Prod", "Nat", "Point"))
            if e.func.id == "enumerate" and len(e.args) == 1:
                a = elem_type(self.ty(e.args[0]))
                return ("List", ("Prod", "Nat", a)) if a else None
            if e.func.id in ("set", "list", "sorted") and len(e.args) == 1:
                a = elem_type(self.ty(e.args[0]))
                return ("List", a) if a else None
        return None

    def iter_of(self, e):
        """Lean text of the list a `for` / comprehension runs over: iterating a dict yields its keys"""
        if isinstance(e, ast.Name) and e.id == "__range__":
            return self.range_iter
        t = self.ty(e)
        if isinstance(t, tuple) and t[0] == "AL":
            return f"(keys {self.atom(e)})"
        if t == "Storage":
            return f"(Storage.iter {self.atom(e)})"
        return self.atom(e)

    def bind_target(self, target, it):
        if isinstance(it, ast.Name) and it.id == "__range__":
            self.env[target.id] = "Nat"
            return
        et = elem_type(self.ty(it))
        if isinstance(target, ast.Name):
            self.env[target.id] = et
        elif isinstance(target, ast.Tuple):
            for i, x in enumerate(target.elts):
                if isinstance(x, ast.Name):
                    self.env[x.id] = et[1 + i] if isinstance(et, tuple) and et[0] == "Prod" and i < 2 else None

    # --- expressions: Lean text usable inside a `do` block (may contain `(← ...)`)
    def ex(self, e):
        if isinstance(e, ast.Name):
            return nm(self.alias.get(e.id, e.id))
        if isinstance(e, ast.Constant):
            if e.value is None:
                return "none"
            if isinstance(e.value, bool):
                return "true" if e.value else "false"
            if isinstance(e.value, int) and e.value >= 0:
                return str(e.value)
            if isinstance(e.value, str) and e.value.isidentifier():
                return '"' + e.value + '"'
            raise Unsupported("constant " + repr(e.value))
        if isinstance(e, ast.Attribute):
            if _is_self_attr(e):
                if e.attr not in self.cls.attrs:
                    raise Unsupported("attribute self." + e.attr)
                return f"self.{e.attr}"
            if isinstance(e.value, ast.Name) and e.value.id == "operator" and e.attr in ("eq", "ne", "lt", "le", "gt", "ge"):
                return f"Operator.{e.attr}"
            if isinstance(e.value, ast.Name) and e.value.id == "operator" and e.attr in ("and_", "or_", "not_"):
                return f"BoolOperator.{e.attr}"
            if isinstance(e.value, ast.Name) and e.value.id in self.unpacked and e.attr in ("operator", "query1", "query2"):
                return {"operator": "operator_", "query1": "query1", "query2": "query2"}[e.attr]
            if isinstance(e.value, ast.Name) and self.env.get(e.value.id) == "SimpleQuery" and e.attr in ("point_attr", "_point_attr"):
                return f"{e.value.id}._point_attr"
            if isinstance(e.value, ast.Name) and self.env.get(e.value.id) == "SimpleQuery" and e.attr in ("_operator", "_rhs"):
                return f"{e.value.id}.{e.attr}"
            if self.ty(e.value) == "Rhs" and e.attr == "tzinfo":
                return f"(Rhs.tzinfo {self.atom(e.value)})"
            if _is_self_attr(e.value) and e.value.attr == "_storage" and e.attr in ("can_read", "can_write", "can_append"):
                return f"(Storage.{e.attr} self._storage)"
            if self.ty(e.value) == "IndexImpl.Self" and e.attr == "valid":
                return f"(← IndexImpl.valid {self.atom(e.value)})"
            if self.ty(e.value) == "IndexResult" and e.attr in ("_items", "items"):
                return f"{self.atom(e.value)}._items"
            if isinstance(e.value, ast.Name) and e.attr in _POINT_ATTR:
                return f"{nm(self.alias.get(e.value.id, e.value.id))}.{_POINT_ATTR[e.attr]}"
            if isinstance(e.value, ast.Name) and e.attr == "time":
                return f"(timeOf {nm(self.alias.get(e.value.id, e.value.id))})"
            raise Unsupported("attribute " + ast.dump(e))
        if isinstance(e, ast.Tuple):
            return "(" + ", ".join(self.ex(x) for x in e.elts) + ")"
        if isinstance(e, ast.List):
            return "[" + ", ".join(self.ex(x) for x in e.elts) + "]"
        if isinstance(e, ast.Set):
            return "(mkSet [" + ", ".join(self.ex(x) for x in e.elts) + "])"
        if isinstance(e, ast.Dict):
            if not e.keys:
                return "[]"
            if len(e.keys) == 1:
                return f"[({self.ex(e.keys[0])}, {self.ex(e.values[0])})]"
            raise Unsupported("dict literal")
        if isinstance(e, ast.Subscript):
            if isinstance(e.slice, ast.Slice):
                sl = e.slice
                if sl.step is not None:
                    raise Unsupported("slice step")
                if sl.lower is None and sl.upper is not None:
                    return f"(sliceTo {self.ex(e.value)} {self.atom(sl.upper)})"
                if sl.lower is not None and sl.upper is None:
                    return f"(sliceFrom {self.ex(e.value)} {self.atom(sl.lower)})"
                raise Unsupported("slice")
            if isinstance(e.slice, ast.Constant) and e.slice.value in (0, 1) and isinstance(e.value, ast.Name):
                return f"(item{e.slice.value} {e.value.id})"
            return f"(← getItem {self.atom(e.value)} {self.atom(e.slice)})"
        if isinstance(e, ast.BinOp) and isinstance(e.op, (ast.BitAnd, ast.BitOr)) and self.ty(e.left) == "IndexResult":
            m = "__and__" if isinstance(e.op, ast.BitAnd) else "__or__"
            return f"(← IndexResultImpl.{m} {self.atom(e.left)} {self.atom(e.right)})"
        if isinstance(e, ast.UnaryOp) and isinstance(e.op, ast.Invert) and self.ty(e.operand) == "IndexResult":
            return f"(← IndexResultImpl.__invert__ {self.atom(e.operand)})"
        if isinstance(e, ast.BinOp) and isinstance(e.op, ast.BitAnd) and self.ty(e.left) == "Q":
            return f"(ext.qand {self.atom(e.left)} {self.atom(e.right)})"
        if isinstance(e, ast.Compare) and self.ty(e) == "Q":
            rhs = self.atom(e.comparators[0])
            return f"(ext.meas_eq (some {rhs}))" if self.ty(e.comparators[0]) == "String" else f"(ext.meas_eq {rhs})"
        if isinstance(e, ast.BinOp):
            if isinstance(e.op, ast.Add):
                return f"({self.ex(e.left)} + {self.ex(e.right)})"
            if isinstance(e.op, ast.Sub):
                return f"(← natSub {self.atom(e.left)} {self.atom(e.right)})"
            raise Unsupported("operator " + ast.dump(e.op))
        if isinstance(e, (ast.BoolOp, ast.Compare)) or (isinstance(e, ast.UnaryOp) and isinstance(e.op, ast.Not)):
            return self.cond(e)
        if isinstance(e, ast.IfExp) and isinstance(e.orelse, ast.Constant) and e.orelse.value is None:
            b = self.ex(e.body)
            if "←" in b:
                raise Unsupported("conditional expression with a raising branch and None")
            tb = self.ty(e.body)
            wrapped = b if (isinstance(tb, tuple) and tb[0] == "Option") else f"some {self.atom(e.body)}"
            return f"(if {self.cond(e.test)} then {wrapped} else none)"
        if isinstance(e, ast.IfExp):
            return f"(← (if {self.cond(e.test)} then {self.exdo(e.body)} else {self.exdo(e.orelse)}))"
        if isinstance(e, (ast.ListComp, ast.GeneratorExp)):
            return self.listcomp(e)
        if isinstance(e, ast.DictComp):
            if len(e.generators) != 1 or e.generators[0].ifs:
                raise Unsupported("dict comprehension")
            g = e.generators[0]
            pair = f"({self.ex(e.key)}, {self.ex(e.value)})"
            if "←" in pair:
                raise Unsupported("dict comprehension with a raising element")
            return f"(dictOf (List.map (fun {self.pat(g.target)} => {pair}) {self.iter_of(g.iter)}))"
        if isinstance(e, ast.Call):
            return self.call(e)
        raise Unsupported("expression " + ast.dump(e))

    def atom(self, e):
        t = self.ex(e)
        return t if (t.isidentifier() or t.isdigit() or t.startswith("(") or t.startswith("[") or "." in t and " " not in t) else f"({t})"

    def exdo(self, e):
        t = self.ex(e)
        if "←" not in t:
            return f"(pure {self.atom(e)})"
        if t.startswith("(← ") and t.endswith(")"):
            inner = t[3:-1]
            depth = 0
            ok = True
            for ch in inner:
                depth += ch == "("
                depth -= ch == ")"
                if depth < 0:
                    ok = False
                    break
            if ok and depth == 0:
                return f"({inner})"
        return f"(do pure {t})"

    def pat(self, t):
        if isinstance(t, ast.Name):
            return nm(t.id)
        if isinstance(t, ast.Tuple) and all(isinstance(x, ast.Name) for x in t.elts):
            return "(" + ", ".join(nm(x.id) for x in t.elts) + ")"
        raise Unsupported("loop target " + ast.dump(t))

    def listcomp(self, e):
        if len(e.generators) != 1 or len(e.generators[0].ifs) > 1:
            raise Unsupported("comprehension")
        g = e.generators[0]
        p = self.pat(g.target)
        it = self.iter_of(g.iter)
        self.bind_target(g.target, g.iter)
        elt = self.ex(e.elt)
        c = self.cond(g.ifs[0]) if g.ifs else None
        ident = isinstance(e.elt, ast.Name) and isinstance(g.target, ast.Name) and e.elt.id == g.target.id
        if "←" not in elt and (c is None or "←" not in c):
            src = it if c is None else f"(List.filter (fun {p} => {c}) {it})"
            return src if ident else f"(List.map (fun {p} => {elt}) {src})"
        if c is None:
            return f"(← List.mapM (fun {p} => {self.exdo(e.elt)}) {it})"
        return f"(← List.filterMapM (fun {p} => do if {c} then pure (some {elt}) else pure none) {it})"

    # --- conditions: Lean text of type Bool
    def cond(self, e):
        if (isinstance(e, ast.BoolOp) and isinstance(e.op, ast.And) and len(e.values) == 2 and isinstance(e.values[0], ast.Call)
                and isinstance(e.values[0].func, ast.Name) and e.values[0].func.id == "isinstance"
                and isinstance(e.values[0].args[1], ast.Name) and e.values[0].args[1].id == "SimpleQuery"
                and self.ty(e.values[0].args[0]) == "QueryObj" and isinstance(e.values[1], ast.Compare)
                and isinstance(e.values[1].left, ast.Attribute) and e.values[1].left.attr in ("_point_attr", "point_attr")
                and ast.dump(e.values[1].left.value) == ast.dump(e.values[0].args[0]) and isinstance(e.values[1].ops[0], ast.Eq)):
            # isinstance(x, SimpleQuery) and x._point_attr == "…"
            return f"(QueryObj.isSimpleWithAttr {self.atom(e.values[0].args[0])} {self.ex(e.values[1].comparators[0])})"
        if isinstance(e, ast.UnaryOp) and isinstance(e.op, ast.Not):
            return f"(!{self.cond(e.operand)})"
        if isinstance(e, ast.BoolOp):
            parts = [self.cond(v) for v in e.values]
            if len(parts) == 2 and "←" in parts[1]:
                # the second operand may raise: it is evaluated only when the first does not decide
                if isinstance(e.op, ast.And):
                    return f"(← (if {parts[0]} then (do pure {parts[1]}) else (pure false)))"
                return f"(← (if {parts[0]} then (pure true) else (do pure {parts[1]})))"
            if any("←" in p for p in parts[1:]):
                raise Unsupported("short-circuit over an operand that may raise")
            op = " && " if isinstance(e.op, ast.And) else " || "
            return "(" + op.join(parts) + ")"
        if isinstance(e, ast.Compare):
            if len(e.ops) != 1:
                raise Unsupported("chained comparison")
            a, b, op = e.left, e.comparators[0], e.ops[0]
            if (isinstance(op, ast.Eq) and isinstance(a, ast.Attribute) and a.attr == "_hash" and isinstance(a.value, ast.Name)
                    and self.env.get(a.value.id) == "SimpleQuery" and isinstance(b, ast.Tuple) and not b.elts):
                return f"{a.value.id}.hash_is_empty"          # `query._hash == ()`: a `noop()` query
            if isinstance(op, (ast.Is, ast.IsNot)):
                if not (isinstance(b, ast.Constant) and b.value is None):
                    raise Unsupported("is")
                return f"({'Option.isNone' if isinstance(op, ast.Is) else 'Option.isSome'} {self.atom(a)})"
            x, y = self.atom(a), self.atom(b)
            if isinstance(op, ast.In):
                return f"(isin {x} {y})"
            if isinstance(op, ast.NotIn):
                return f"(!isin {x} {y})"
            ta, tb = self.ty(a), self.ty(b)
            mixed = ta is not None and tb is not None and ta != tb
            if isinstance(op, ast.Eq):
                return f"(pyEq {x} {y})" if mixed else f"({x} == {y})"
            if isinstance(op, ast.NotEq):
                return f"(!pyEq {x} {y})" if mixed else f"({x} != {y})"
            sym = {ast.Lt: "<", ast.LtE: "≤", ast.Gt: ">", ast.GtE: "≥"}.get(type(op))
            if sym:
                return f"(decide ({x} {sym} {y}))"
            raise Unsupported("comparison " + ast.dump(op))
        if isinstance(e, ast.Constant) and isinstance(e.value, bool):
            return "true" if e.value else "false"
        return f"(truthy {self.atom(e)})"

    def call(self, e):
        f = e.func
        kw = {k.arg: k.value for k in e.keywords}
        if isinstance(f, ast.Name):
            n = f.id
            if n == "len" and len(e.args) == 1 and not kw and self.ty(e.args[0]) == "Storage":
                return f"(Storage.__len__ {self.atom(e.args[0])})"
            if n == "len" and len(e.args) == 1 and not kw and self.ty(e.args[0]) == "IndexImpl.Self":
                return f"(← IndexImpl.__len__ {self.atom(e.args[0])})"
            if n == "len" and len(e.args) == 1 and not kw:
                return f"(len {self.atom(e.args[0])})"
            if n == "set" and not kw:
                if not e.args:
                    return "[]"
                a = e.args[0]
                if isinstance(a, (ast.List, ast.Dict)) and not (a.elts if isinstance(a, ast.List) else a.keys):
                    return "[]"
                return f"(mkSet {self.atom(a)})"
            if n == "list" and len(e.args) == 1 and not kw:
                return self.ex(e.args[0])
            if n == "range" and len(e.args) == 1 and not kw:
                return f"(range {self.atom(e.args[0])})"
            if n == "zip" and len(e.args) == 2 and not kw:
                return f"(List.zip {self.atom(e.args[0])} {self.atom(e.args[1])})"
            if n == "enumerate" and len(e.args) == 1 and not kw:
                return f"(enumerate {self.iter_of(e.args[0])})"
            if n in ("find_eq", "find_lt", "find_le", "find_gt", "find_ge") and len(e.args) == 2 and not kw:
                return f"(← findIn TinyFlux.Generated.{n} {self.atom(e.args[0])} {self.atom(e.args[1])})"
            if (n == "isinstance" and len(e.args) == 2 and not kw and self.ty(e.args[0]) == "Q"
                    and ast.unparse(e.args[1]) in ("(SimpleQuery, CompoundQuery)", "(CompoundQuery, SimpleQuery)")):
                return f"(ext.is_query {self.atom(e.args[0])})"
            if n == "isinstance" and len(e.args) == 2 and not kw and isinstance(e.args[1], ast.Name) and e.args[1].id == "datetime" \
                    and self.ty(e.args[0]) == "Rhs":
                return f"(Rhs.isDatetime {self.atom(e.args[0])})"
            if n == "IndexResult" and len(e.args) == 2 and not kw:
                return f"({{ _items := {self.ex(e.args[0])}, _index_count := {self.ex(e.args[1])} }} : IndexResult)"
            if n == "IndexResult" and not e.args and set(kw) == {"items", "index_count"}:
                return f"({{ _items := {self.ex(kw['items'])}, _index_count := {self.ex(kw['index_count'])} }} : IndexResult)"
            if n == "index_is_exact" and len(e.args) == 1 and not kw:
                return f"(ext.index_is_exact {self.atom(e.args[0])})"
            if self.env.get(n) == "Q" and len(e.args) == 1 and not kw:
                return f"(← ext.call {n} {self.atom(e.args[0])})"
            if n == "sorted" and len(e.args) == 1 and not kw:
                return f"(sortedStr {self.atom(e.args[0])})"          # sorting a collection of strings
            if n == "sorted" and len(e.args) == 1 and set(kw) == {"key"} and isinstance(kw["key"], ast.Lambda):
                key = self.lam(kw["key"])
                if key == "OPTSTR":
                    return f"(sortedOptStr {self.atom(e.args[0])})"       # optional strings, `None` last
                return f"(sortedBy {key} {self.atom(e.args[0])})"
            raise Unsupported("call of " + n)
        if isinstance(f, ast.Attribute):
            if (f.attr == "replace" and not e.args and set(kw) == {"tzinfo"} and isinstance(kw["tzinfo"], ast.Attribute)
                    and kw["tzinfo"].attr == "utc" and self.ty(f.value) == "DateTime"):
                return f"(DateTime.replaceTzUtc {self.atom(f.value)})"
            if kw:
                raise Unsupported("keyword call " + ast.dump(e))
            recv, args = f.value, e.args
            if f.attr in ("keys", "values", "items") and not args:
                return f"({f.attr} {self.atom(recv)})"
            if f.attr in ("intersection", "union", "difference") and len(args) == 1:
                name = {"intersection": "setInter", "union": "setUnion", "difference": "setDiff"}[f.attr]
                return f"({name} {self.atom(recv)} {self.atom(args[0])})"
            if f.attr == "timestamp" and not args and self.ty(recv) == "Rhs":
                return f"(← Rhs.timestamp {self.atom(recv)})"
            if f.attr == "timestamp" and not args:
                return f"(timestamp {self.atom(recv)})"
            if f.attr == "is_hashable" and not args and isinstance(recv, ast.Name) and self.env.get(recv.id) == "SimpleQuery":
                return f"{recv.id}.hashable"
            if f.attr == "fromtimestamp" and isinstance(recv, ast.Name) and recv.id == "datetime" and len(args) == 2 \
                    and isinstance(args[1], ast.Attribute) and args[1].attr == "utc":
                return f"(fromtimestamp {self.atom(args[0])})"
            if _is_self_attr(recv) and recv.attr == "_storage" and f.attr in ("_deserialize_measurement", "_deserialize_storage_item") \
                    and len(args) == 1:
                return f"(Storage.{f.attr} self._storage {self.atom(args[0])})"
            if _is_self_attr(recv) and recv.attr == "_index" and f.attr in INDEX_READERS:
                return f"(← IndexImpl.{f.attr} self._index {' '.join(self.atom(a) for a in args)})".replace(" )", ")")
            if _is_self_attr(recv) and recv.attr == "_storage" and f.attr == "read" and not args:
                return "(Storage.read self._storage)"
            if _is_self_attr(recv) and recv.attr == "_storage" and f.attr == "_deserialize_timestamp" and len(args) == 1:
                return f"(Storage._deserialize_timestamp self._storage {self.atom(args[0])})"
            if _is_self_attr(recv) and recv.attr == "_index" and f.attr == "search" and len(args) == 1:
                return f"(← ext.index_search self._index {self.atom(args[0])})"
            if isinstance(recv, ast.Name) and self.env.get(recv.id) == "SimpleQuery" and f.attr == "_test" and len(args) == 1:
                return f"(← {recv.id}._test {self.atom(args[0])})"
            if _is_self_attr(f) and (f.attr in self.cls.readers or f.attr == self.fn.name):
                return f"(← {f.attr} self {' '.join(self.atom(a) for a in args)})"
        raise Unsupported("call " + ast.dump(e))

    def lam(self, l):
        if l.args.defaults or l.args.vararg or l.args.kwarg or len(l.args.args) != 1:
            raise Unsupported("lambda")
        x = l.args.args[0].arg
        if ast.unparse(l.body) == f"({x} is None, {x})":
            return "OPTSTR"          # `sorted(values, key=lambda x: (x is None, x))`: see `call`
        if ast.unparse(l.body) in (f"({x}.time is None, {x}.time)", f"({x} is None, {x}.time)"):
            # the sort key "points without a time last, then by time": a point that storage returns has a time
            return f"(fun {x} => (timeOf {x}).us)"
        body = self.ex(l.body)
        if "←" in body:
            raise Unsupported("lambda body may raise")
        return f"(fun {l.args.args[0].arg} => {body})"

    # --- statements
    def tup(self, names):
        return names[0] if len(names) == 1 else "(" + ", ".join(names) + ")"

    def local_type(self, name, rest):
        """type of an un-annotated empty literal, from what is later done with the variable"""
        for s in rest:
            for n in ast.walk(s):
                if (isinstance(n, ast.Assign) and len(n.targets) == 1 and _is_self_attr(n.targets[0])
                        and isinstance(n.value, ast.Name) and n.value.id == name):
                    return self.cls.attrs.get(n.targets[0].attr)
                if isinstance(n, ast.Return) and isinstance(n.value, ast.Name) and n.value.id == name and self.ret:
                    return self.ret
        # elements added are positions counted by `enumerate`
        counters = set()
        for n in ast.walk(self.fn):
            if (isinstance(n, ast.For) and isinstance(n.iter, ast.Call) and isinstance(n.iter.func, ast.Name)
                    and n.iter.func.id == "enumerate" and isinstance(n.target, ast.Tuple) and isinstance(n.target.elts[0], ast.Name)):
                counters.add(n.target.elts[0].id)
        for s in rest:
            for n in ast.walk(s):
                if (isinstance(n, ast.Call) and isinstance(n.func, ast.Attribute) and n.func.attr in ("add", "append")
                        and isinstance(n.func.value, ast.Name) and n.func.value.id == name and len(n.args) == 1
                        and isinstance(n.args[0], ast.Name) and n.args[0].id in counters):
                    return "(List Nat)"
        return None

    def path_update(self, target, final):
        """Lean term (in M) for the new value of the root of `target` after `final` was applied to the addressed slot.
        final: ('set', text) | ('fn', text of a function old -> new)"""
        subs = []
        e = target
        while isinstance(e, ast.Subscript):
            if isinstance(e.slice, ast.Slice):
                raise Unsupported("slice assignment")
            subs.append(self.atom(e.slice))
            e = e.value
        subs.reverse()
        root = self.ex(e)
        if not subs:
            if final[0] == "set":
                return f"pure {final[1]}"
            return f"pure ({final[1](root)})"
        # innermost first
        if final[0] == "set":
            inner = lambda cur: f"pure (setItem {cur} {subs[-1]} {final[1]})"  # noqa: E731
            levels = subs[:-1]
        else:
            inner = lambda cur: f"pure ({final[1](cur)})"  # noqa: E731
            levels = subs

        def build(i, cur):
            if i == len(levels):
                return inner(cur)
            v = f"d{i}"
            return f"updItem {cur} {levels[i]} (fun {v} => {build(i + 1, v)})"

        return build(0, root)

    def rebind_root(self, target, term, ind):
        e = target
        while isinstance(e, ast.Subscript):
            e = e.value
        pure = term.startswith("pure ") and "←" not in term
        if _is_self_attr(e):
            val = term[5:] if pure else f"(← {term})"
            return f"{ind}let self := {{ self with {e.attr} := {val} }}\n"
        if isinstance(e, ast.Name):
            return f"{ind}let {e.id} := {term[5:]}\n" if pure else f"{ind}let {e.id} ← {term}\n"
        raise Unsupported("assignment target " + ast.dump(target))

    def block(self, stmts, k, ind, defined):
        """k: Lean text (one do-element) that ends a block which falls through"""
        if not stmts:
            return f"{ind}{k}\n"
        s, rest = stmts[0], list(stmts[1:])
        defined = set(defined)
        if isinstance(s, ast.Expr) and isinstance(s.value, ast.Constant):
            return self.block(rest, k, ind, defined)
        if isinstance(s, ast.Pass):
            return self.block(rest, k, ind, defined)
        if isinstance(s, ast.Return):
            if s.value is None:
                return f"{ind}pure self\n" if self.mutator else f"{ind}pure ()\n"
            if (self.mutval and isinstance(s.value, ast.Call) and _is_self_attr(s.value.func)
                    and s.value.func.attr in self.cls.mutvals and not s.value.keywords):
                # return self._helper(…): the helper changes the object and answers the value
                callee = self.cls.methods[s.value.func.attr]
                args = []
                for a, prm in zip(s.value.args, callee.args.args[1:]):
                    t = self.atom(a)
                    want, have = parse_type(prm.annotation), self.ty(a)
                    if isinstance(want, tuple) and want[0] == "Option" and have is not None and have == want[1]:
                        t = f"(some {t})"          # a plain value where an Optional is expected
                    args.append(t)
                return f"{ind}{s.value.func.attr} ext self {' '.join(args)}\n"
            if self.mutval:
                return f"{ind}pure (self, {self.ex(s.value)})\n"
            if self.mutator:
                raise Unsupported("a mutator returns a value")
            return f"{ind}pure {self.atom(s.value)}\n"
        if isinstance(s, ast.Raise):
            exc = s.exc.func if isinstance(s.exc, ast.Call) else s.exc
            name = {"ValueError": "valueError", "TypeError": "typeError", "KeyError": "keyError"}.get(getattr(exc, "id", None))
            if not name:
                raise Unsupported("raise " + ast.dump(s))
            return f"{ind}throw PyErr.{name}\n"
        if (isinstance(s, ast.Delete) and len(s.targets) == 1 and isinstance(s.targets[0], ast.Subscript)
                and _is_self_attr(s.targets[0].value)):
            a = s.targets[0].value.attr
            return (f"{ind}let self := {{ self with {a} := (delItem self.{a} {self.atom(s.targets[0].slice)}) }}\n"
                    + self.block(rest, k, ind, defined))
        if isinstance(s, ast.Assert):
            i2 = ind + "  "
            return (f"{ind}if (!{self.cond(s.test)}) then do\n{i2}throw PyErr.assertionError\n{ind}else do\n"
                    + self.block(rest, k, i2, defined))
        if (isinstance(s, ast.Expr) and isinstance(s.value, ast.Call) and isinstance(s.value.func, ast.Name)
                and s.value.func.id == "print"):
            return self.block(rest, k, ind, defined)          # writes to stdout only
        if isinstance(s, ast.Continue):
            if self.loop_k is None:
                raise Unsupported("continue outside a loop")
            return f"{ind}{self.loop_k}\n"
        if isinstance(s, ast.Break):
            if self.break_k is None:
                raise Unsupported("break outside a loop")
            return f"{ind}{self.break_k}\n"
        if isinstance(s, (ast.Assign, ast.AnnAssign)):
            if isinstance(s, ast.Assign):
                if len(s.targets) != 1:
                    raise Unsupported("multiple targets")
                target, ann = s.targets[0], None
            else:
                target, ann = s.target, s.annotation
                if s.value is None:
                    raise Unsupported("bare annotation")
            if isinstance(target, ast.Name):
                ty = lean_type(ann) if ann is not None else None
                prev_t = self.env.get(target.id)
                self.env[target.id] = parse_type(ann) if ann is not None else self.ty(s.value)
                val = self.ex(s.value)
                if ty is None and val == "[]":
                    ty = self.local_type(target.id, rest)
                if ty is None and val == "none":
                    ty = self.local_type(target.id, rest)
                    if ty and ty.startswith("(Option ") and ty.endswith(")"):
                        self.env[target.id] = ("Option", ty[len("(Option "):-1])
                elif ty is None:
                    tv = self.ty(s.value)
                    if isinstance(prev_t, tuple) and prev_t[0] == "Option" and tv is not None and tv == prev_t[1]:
                        val = f"some {self.atom(s.value)}"      # a value stored into an Optional local
                        self.env[target.id] = prev_t
                line = f"{ind}let {nm(target.id)}{' : ' + ty if ty else ''} := {val}\n"
                self.known.pop(target.id, None)      # what was known about this flag no longer holds
                if isinstance(s.value, ast.Constant) and isinstance(s.value.value, bool):
                    self.known[target.id] = s.value.value
                return line + self.block(rest, k, ind, defined | {target.id})
            if (isinstance(target, ast.Attribute) and isinstance(target.value, ast.Name) and self.env.get(target.value.id) == "IndexResult"
                    and target.attr == "_items"):
                x = target.value.id
                return f"{ind}let {x} := {{ {x} with _items := {self.ex(s.value)} }}\n" + self.block(rest, k, ind, defined)
            if _is_self_attr(target):
                if target.attr not in self.cls.attrs:
                    raise Unsupported("new attribute self." + target.attr)
                line = f"{ind}let self := {{ self with {target.attr} := {self.ex(s.value)} }}\n"
                return line + self.block(rest, k, ind, defined)
            if isinstance(target, ast.Subscript):
                val = self.atom(s.value)
                pre = ""
                if "←" in val:  # evaluate the right-hand side first (it cannot be lifted out of the updater function)
                    pre = f"{ind}let rhs := {val}\n"
                    val = "rhs"
                term = self.path_update(target, ("set", val))
                return pre + self.rebind_root(target, term, ind) + self.block(rest, k, ind, defined)
            raise Unsupported("assignment " + ast.dump(s))
        if isinstance(s, ast.AugAssign):
            if isinstance(s.op, ast.Add):
                new = lambda cur: f"{cur} + {self.atom(s.value)}"  # noqa: E731
            elif isinstance(s.op, ast.Sub):
                new = lambda cur: f"(← natSub {cur} {self.atom(s.value)})"  # noqa: E731
            else:
                raise Unsupported("augmented assignment")
            if isinstance(s.target, ast.Name):
                return f"{ind}let {nm(s.target.id)} := {new(nm(s.target.id))}\n" + self.block(rest, k, ind, defined)
            if _is_self_attr(s.target):
                a = s.target.attr
                return f"{ind}let self := {{ self with {a} := {new('self.' + a)} }}\n" + self.block(rest, k, ind, defined)
            raise Unsupported("augmented assignment " + ast.dump(s))
        if (isinstance(s, ast.Expr) and isinstance(s.value, ast.Call) and isinstance(s.value.func, ast.Attribute)
                and s.value.func.attr == "replace" and not s.value.args and {x.arg for x in s.value.keywords} == {"tzinfo"}
                and isinstance(s.value.func.value, ast.Attribute) and s.value.func.value.attr == "time"):
            # `point.time.replace(tzinfo=…)` with the result thrown away: datetimes are immutable, nothing happens
            return self.block(rest, k, ind, defined)
        if isinstance(s, ast.Expr) and isinstance(s.value, ast.Call) and isinstance(s.value.func, ast.Attribute):
            c, f = s.value, s.value.func
            if c.keywords and not (f.attr == "sort") and not (_is_self_attr(f.value) and f.value.attr == "_storage"):
                raise Unsupported("keyword call")
            if _is_self_attr(f) and f.attr in self.cls.mutators:
                args = " ".join(self.atom(a) for a in c.args)
                return f"{ind}let self ← {f.attr} self {args}\n".replace("  \n", "\n") + self.block(rest, k, ind, defined)
            if _is_self_attr(f.value) and f.value.attr == "_index" and not c.keywords:
                args = " ".join(self.atom(a) for a in c.args)
                return (f"{ind}let self := {{ self with _index := (← IndexImpl.{f.attr} self._index {args}) }}\n".replace(" ) }", ") }")
                        + self.block(rest, k, ind, defined))
            if _is_self_attr(f.value) and f.value.attr == "_storage":
                kws = {x.arg: x.value for x in c.keywords}
                if set(kws) - {"temporary"}:
                    raise Unsupported("keyword call " + ast.dump(c)[:120])
                args = " ".join(self.atom(a) for a in c.args)
                if f.attr == "append":
                    args += " " + (self.cond(kws["temporary"]) if "temporary" in kws else "false")
                return (f"{ind}let self := {{ self with _storage := (← Storage.{f.attr} self._storage {args}) }}\n".replace(" ) }", ") }")
                        + self.block(rest, k, ind, defined))
            if f.attr == "clear" and not c.args and _is_self_attr(f.value):
                return f"{ind}let self := {{ self with {f.value.attr} := [] }}\n" + self.block(rest, k, ind, defined)
            if f.attr in ("append", "add", "extend") and len(c.args) == 1:
                fn = {"append": "append", "add": "setAdd", "extend": "extend"}[f.attr]
                arg = self.atom(c.args[0])
                term = self.path_update(f.value, ("fn", lambda cur: f"{fn} {cur} {arg}"))
                return self.rebind_root(f.value, term, ind) + self.block(rest, k, ind, defined)
            if f.attr == "sort" and isinstance(f.value, ast.Name) and not c.args:
                kw = {x.arg: x.value for x in c.keywords}
                if set(kw) != {"key"} or not isinstance(kw["key"], ast.Lambda):
                    raise Unsupported("sort")
                n = f.value.id
                return f"{ind}let {n} := sortedBy {self.lam(kw['key'])} {n}\n" + self.block(rest, k, ind, defined)
            raise Unsupported("statement " + ast.dump(s))
        if isinstance(s, ast.Try):
            # try: x = query._path_resolver(arg)  except Exception: <a block that leaves the iteration>
            ok = (len(s.body) == 1 and isinstance(s.body[0], ast.Assign) and len(s.body[0].targets) == 1
                  and isinstance(s.body[0].targets[0], ast.Name) and len(s.handlers) == 1 and not s.orelse and not s.finalbody
                  and isinstance(s.handlers[0].type, ast.Name) and s.handlers[0].type.id == "Exception"
                  and s.handlers[0].name is None and exits(s.handlers[0].body))
            call = s.body[0].value if ok else None
            ok = (ok and isinstance(call, ast.Call) and isinstance(call.func, ast.Attribute) and not call.keywords
                  and call.func.attr == "_path_resolver" and isinstance(call.func.value, ast.Name)
                  and self.env.get(call.func.value.id) == "SimpleQuery" and len(call.args) == 1)
            if (not ok and len(s.body) == 1 and isinstance(s.body[0], ast.Expr) and len(s.handlers) == 1 and not s.orelse
                    and not s.finalbody and isinstance(s.handlers[0].type, ast.Name) and s.handlers[0].type.id == "Exception"
                    and s.handlers[0].name is None and s.handlers[0].body and isinstance(s.handlers[0].body[-1], ast.Raise)
                    and s.handlers[0].body[-1].exc is None):
                # try: self._storage.m()  except Exception: <statements>; raise
                c0 = s.body[0].value
                if not (isinstance(c0, ast.Call) and isinstance(c0.func, ast.Attribute) and _is_self_attr(c0.func.value)
                        and c0.func.value.attr == "_storage" and not c0.args and not c0.keywords):
                    raise Unsupported("try statement " + ast.dump(s)[:200])
                i2 = ind + "  "
                handler = self.block(s.handlers[0].body[:-1], "throw e", i2, defined)
                return (f"{ind}match Storage.{c0.func.attr} self._storage with\n"
                        f"{ind}| .error e => do\n{handler}"
                        f"{ind}| .ok st => do\n{i2}let self := {{ self with _storage := st }}\n{self.block(rest, k, i2, defined)}")
            if not ok:
                raise Unsupported("try statement " + ast.dump(s)[:200])
            a = call.args[0]
            if isinstance(a, ast.Dict) and len(a.keys) == 1:
                arg = f"(entryArg {self.atom(a.keys[0])} {self.atom(a.values[0])})"
            else:
                arg = f"(toArg {self.atom(a)})"
            if "←" in arg:
                raise Unsupported("raising argument of a guarded call")
            x = s.body[0].targets[0].id
            i2 = ind + "  "
            return (f"{ind}match {call.func.value.id}._path_resolver {arg} with\n"
                    f"{ind}| .error _ => do\n{self.block(s.handlers[0].body, k, i2, defined)}"
                    f"{ind}| .ok {x} => do\n{self.block(rest, k, i2, defined | {x})}")
        if (isinstance(s, ast.If) and isinstance(s.test, ast.Compare) and len(s.test.ops) == 1 and isinstance(s.test.ops[0], ast.Is)
                and isinstance(s.test.left, ast.Name) and isinstance(s.test.comparators[0], ast.Constant)
                and s.test.comparators[0].value is None and exits(s.body) and not s.orelse):
            # `if x is None: return …` — afterwards x is the value itself
            x = s.test.left.id
            t = self.env.get(x)
            if not (isinstance(t, tuple) and t[0] == "Option"):
                raise Unsupported(f"`{x} is None` on a value that is not known to be optional")
            i2 = ind + "  "
            none_branch = self.block(s.body, k, i2, defined)
            saved_t = self.env.get(x)
            self.env[x] = t[1]
            some_branch = self.block(rest, k, i2, defined)
            self.env[x] = saved_t
            return f"{ind}match {nm(x)} with\n{ind}| none => do\n{none_branch}{ind}| some {nm(x)} => do\n{some_branch}"
        if (isinstance(s, ast.If) and not s.orelse and isinstance(s.test, ast.Call) and isinstance(s.test.func, ast.Name)
                and s.test.func.id == "isinstance" and isinstance(s.test.args[0], ast.Name)
                and self.env.get(s.test.args[0].id) == "QueryObj" and isinstance(s.test.args[1], ast.Name)
                and s.test.args[1].id in ("CompoundQuery", "SimpleQuery")):
            # `if isinstance(query, CompoundQuery):` / `SimpleQuery`: a match on the object's class, its attributes unpacked
            q = s.test.args[0].id
            i2 = ind + "  "
            if s.test.args[1].id == "CompoundQuery":
                self.unpacked.add(q)
                body = self.block(list(s.body) + rest, k, i2, defined)
                self.unpacked.discard(q)
                other = self.block(rest, k, i2, defined)
                return (f"{ind}match {nm(q)} with\n{ind}| .compound operator_ query1 query2 => do\n{body}"
                        f"{ind}| _ => do\n{other}")
            saved_t = self.env[q]
            other = self.block(rest, k, i2, defined)
            self.env[q] = "SimpleQuery"
            body = self.block(list(s.body) + rest, k, i2, defined)
            self.env[q] = saved_t
            return f"{ind}match {nm(q)} with\n{ind}| .simple {nm(q)} => do\n{body}{ind}| _ => do\n{other}"
        if isinstance(s, UnAlias):
            self.alias.pop(s.name, None)
            self.env[s.name] = s.saved
            return self.block(rest, k, ind, defined)
        if (isinstance(s, ast.If) and isinstance(s.test, ast.Name) and isinstance(self.env.get(s.test.id), tuple)
                and self.env[s.test.id][0] == "Option" and self.env[s.test.id][1] == "Point" and s.test.id not in self.alias):
            # `if point:` on an Optional[Point] (a Point object is always truthy): inside the branch the name is the point itself
            x = s.test.id
            t = self.env[x]
            i2 = ind + "  "
            none_branch = self.block(list(s.orelse) + rest, k, i2, defined)
            self.alias[x] = x + "_some"
            self.env[x] = t[1]
            some_branch = self.block(list(s.body) + [UnAlias(name=x, saved=t)] + rest, k, i2, defined)
            self.alias.pop(x, None)
            self.env[x] = t
            return (f"{ind}match {nm(x)} with\n{ind}| none => do\n{none_branch}"
                    f"{ind}| some {nm(x + '_some')} => do\n{some_branch}")
        if isinstance(s, ast.While):
            # while n < len(xs): <body>; n += 1      — a bounded scan: n runs over range(n, len(xs)); `break` leaves it
            t = s.test
            ok = (isinstance(t, ast.Compare) and len(t.ops) == 1 and isinstance(t.ops[0], ast.Lt) and isinstance(t.left, ast.Name)
                  and isinstance(t.comparators[0], ast.Call) and isinstance(t.comparators[0].func, ast.Name)
                  and t.comparators[0].func.id == "len" and not s.orelse and s.body
                  and isinstance(s.body[-1], ast.AugAssign) and isinstance(s.body[-1].op, ast.Add)
                  and isinstance(s.body[-1].target, ast.Name) and s.body[-1].target.id == t.left.id
                  and isinstance(s.body[-1].value, ast.Constant) and s.body[-1].value.value == 1)
            n = t.left.id if ok else None
            inner = s.body[:-1] if ok else []
            if ok:
                for x in inner:
                    for y in ast.walk(x):
                        if isinstance(y, ast.Continue) or (isinstance(y, (ast.Assign, ast.AugAssign)) and any(
                                isinstance(z, ast.Name) and z.id == n for z in ([y.target] if isinstance(y, ast.AugAssign) else y.targets))):
                            ok = False
                if any(isinstance(y, ast.Name) and y.id == n for st in rest for y in ast.walk(st)):
                    ok = False          # the counter's final value is not reconstructed
            if not ok:
                raise Unsupported("while loop " + ast.dump(s.test)[:120])
            bound = self.atom(t.comparators[0].args[0])
            loop = ast.For(target=ast.Name(id=n, ctx=ast.Store()), iter=ast.Name(id="__range__", ctx=ast.Load()), body=inner, orelse=[])
            self.range_iter = f"(List.range' {nm(n)} ((len {bound}) - {nm(n)}))"
            return self.block([loop] + rest, k, ind, defined)
        if isinstance(s, ast.If) and isinstance(s.test, ast.Name) and s.test.id in self.known:
            # the truth value of this local is known on this path (see below)
            return self.block(list(s.body if self.known[s.test.id] else s.orelse) + rest, k, ind, defined)
        if isinstance(s, ast.If):
            c = self.cond(s.test)
            be, oe = exits(s.body), exits(s.orelse)
            i2 = ind + "  "
            if be and oe:
                return (f"{ind}if {c} then do\n{self.block(s.body, k, i2, defined)}"
                        f"{ind}else do\n{self.block(s.orelse, k, i2, defined)}")
            if be:
                return (f"{ind}if {c} then do\n{self.block(s.body, k, i2, defined)}"
                        f"{ind}else do\n{self.block(list(s.orelse) + rest, k, i2, defined)}")
            if oe:
                return (f"{ind}if {c} then do\n{self.block(list(s.body) + rest, k, i2, defined)}"
                        f"{ind}else do\n{self.block(s.orelse, k, i2, defined)}")
            if may_exit(s.body) or may_exit(s.orelse):
                # a branch that leaves the iteration / the function on some path only: what follows the `if` is continued
                # inside both branches
                flag = s.test.id if isinstance(s.test, ast.Name) and s.test.id in defined else None
                saved = dict(self.known)
                if flag:
                    self.known[flag] = True     # a later `if flag:` on this path is decided statically
                tb = self.block(list(s.body) + rest, k, i2, defined)
                if flag:
                    self.known[flag] = False
                te = self.block(list(s.orelse) + rest, k, i2, defined)
                self.known = saved
                return f"{ind}if {c} then do\n{tb}{ind}else do\n{te}"
            vs = [v for v in assigned(s.body, self.cls.mutators) + assigned(s.orelse, self.cls.mutators)]
            vs = [v for i, v in enumerate(vs) if v not in vs[:i]]
            fresh = [v for v in vs if v not in defined and v != "self"]
            # a name first bound inside the branch and read nowhere else is local to the branch
            later = [n for blk in [rest] + self.after for st in blk for n in ast.walk(st)]
            inside = {id(n) for n in ast.walk(s)}
            local = [v for v in fresh if not any(isinstance(n, ast.Name) and n.id == v and id(n) not in inside for n in later)]
            vs = [v for v in vs if v not in local]
            fresh = [v for v in fresh if v not in local]
            if fresh and isinstance(s.test, ast.Name) and s.test.id in defined:
                # `if flag:` binds names that later code uses under the same flag: continue both branches separately, each
                # knowing the flag (a later `if flag:` is then decided statically)
                flag = s.test.id
                saved = dict(self.known)
                self.known[flag] = True
                tb = self.block(list(s.body) + rest, k, i2, defined)
                self.known[flag] = False
                te = self.block(list(s.orelse) + rest, k, i2, defined)
                self.known = saved
                return f"{ind}if {c} then do\n{tb}{ind}else do\n{te}"
            if fresh:
                raise Unsupported(f"variable(s) {fresh} first bound inside an if that falls through")
            if not vs:
                raise Unsupported("an if without effect")
            t = self.tup(vs)
            self.after.append(rest)
            saved_known = dict(self.known)
            tb = self.block(s.body, 'pure ' + t, i2, defined)
            self.known = dict(saved_known)
            te = self.block(s.orelse, 'pure ' + t, i2, defined)
            self.known = {a: b for a, b in saved_known.items() if a not in vs}
            self.after.pop()
            return (f"{ind}let {t} ← (if {c} then do\n{tb}"
                    f"{ind}else do\n{te}{ind})\n"
                    + self.block(rest, k, ind, defined))
        if isinstance(s, ast.For):
            if s.orelse:
                raise Unsupported("for/else")
            tnames = {n.id for n in ast.walk(s.target) if isinstance(n, ast.Name)}
            vs = [v for v in assigned(s.body, self.cls.mutators) if v in defined or v == "self"]
            if not vs:
                # a loop that can only raise: the fold carries nothing
                self.after.append(list(s.body) + rest)
                self.bind_target(s.target, s.iter)
                saved, saved_b = self.loop_k, self.break_k
                self.loop_k, self.break_k = "pure ()", None
                body = self.block(s.body, "pure ()", ind + "    ", defined | tnames)
                self.loop_k, self.break_k = saved, saved_b
                self.after.pop()
                return (f"{ind}let _ ← List.foldlM (fun (_ : Unit) {self.pat(s.target)} => do\n{body}{ind}  ) () {self.iter_of(s.iter)}\n"
                        + self.block(rest, k, ind, defined))
            def has_break(stmts):
                for x in stmts:
                    if isinstance(x, ast.Break):
                        return True
                    if isinstance(x, ast.If) and (has_break(x.body) or has_break(x.orelse)):
                        return True
                    if isinstance(x, ast.Try) and (has_break(x.body) or any(has_break(h.body) for h in x.handlers)):
                        return True
                return False

            brk = has_break(s.body)
            t = self.tup(vs)
            saved, saved_b = self.loop_k, self.break_k
            self.after.append(list(s.body) + rest)
            self.bind_target(s.target, s.iter)
            if not brk:
                self.loop_k, self.break_k = "pure " + t, None
                body = self.block(s.body, "pure " + t, ind + "    ", defined | tnames)
                out = (f"{ind}let {t} ← List.foldlM (fun {t} {self.pat(s.target)} => do\n{body}{ind}  ) {t} {self.iter_of(s.iter)}\n")
            else:
                # `break`: the fold carries a flag; once it is set the remaining elements are passed over
                tb = "(" + ", ".join(vs + ["brk"]) + ")"
                self.loop_k = "pure " + tb
                self.break_k = "pure (" + ", ".join(vs + ["true"]) + ")"
                body = self.block(s.body, "pure " + tb, ind + "      ", defined | tnames)
                t0 = "(" + ", ".join(vs + ["false"]) + ")"
                out = (f"{ind}let {tb} ← List.foldlM (fun {tb} {self.pat(s.target)} => do\n{ind}    if brk then pure {tb} else do\n{body}"
                       f"{ind}  ) {t0} {self.iter_of(s.iter)}\n")
            self.after.pop()
            self.loop_k, self.break_k = saved, saved_b
            return out + self.block(rest, k, ind, defined)
        raise Unsupported("statement " + ast.dump(s))

    def translate(self):
        fn = self.fn
        a = fn.args
        if a.vararg or a.kwarg or a.kwonlyargs or a.posonlyargs:
            raise Unsupported("signature of " + fn.name)
        params = []
        for p in a.args[1:]:
            if p.annotation is None:
                raise Unsupported(f"{fn.name}: parameter {p.arg} is not annotated")
            ann = p.annotation
            if self.cls.node.name == "Index" and ast.unparse(ann) in ("Optional[Query]", "Query"):
                ann = ast.Name(id="QueryObj", ctx=ast.Load())     # a query object whose class the method dispatches on
            params.append((p.arg, lean_type(ann)))
            self.env[p.arg] = parse_type(ann)
        self.mutator = fn.name in self.cls.mutators
        self.mutval = fn.name in self.cls.mutvals
        self.loop_k = None
        self.break_k = None
        self.alias = {}
        self.unpacked = set()
        self.after = []
        self.known = {}
        counts = {}
        for n in ast.walk(fn):
            if isinstance(n, (ast.Assign, ast.AnnAssign, ast.AugAssign)):
                for t in (n.targets if isinstance(n, ast.Assign) else [n.target]):
                    if isinstance(t, ast.Name):
                        counts[t.id] = counts.get(t.id, 0) + 1
        self.reassigned = {n for n, c in counts.items() if c > 1}
        if self.mutval:
            self.mutator = True
            rty = f"(Self × {lean_type(fn.returns)})"
        elif self.mutator:
            rty = "Self"
        else:
            if fn.returns is None:
                raise Unsupported(f"{fn.name}: no return annotation")
            rty = lean_type(fn.returns)
            self.ret = rty
            if assigned(fn.body, self.cls.mutators).count("self"):
                raise Unsupported(f"{fn.name} is annotated as returning a value but changes self")
        sig = " ".join(f"({n} : {t})" for n, t in params)
        body = self.block(fn.body, "throw PyErr.typeError" if (self.mutval or not self.mutator) else "pure self", "  ",
                          {"self"} | {n for n, _ in params})
        return f"def {fn.name} (self : Self) {sig} : M {rty} := do\n{body}".replace(" ) :", ") :")


class Cls:
    def __init__(self, node, want):
        self.node = node
        self.attrs = {}
        self.attr_types = {}
        for s in node.body:
            if isinstance(s, ast.AnnAssign) and isinstance(s.target, ast.Name) and s.value is None:
                self.attrs[s.target.id] = lean_type(s.annotation)
                self.attr_types[s.target.id] = parse_type(s.annotation)
        self.methods = {s.name: s for s in node.body if isinstance(s, ast.FunctionDef)}
        missing = [w for w in want if w not in self.methods]
        if missing:
            raise Unsupported(f"methods missing from class {node.name}: {missing}")
        self.mutators = set()
        self.readers = set()
        self.mutvals = set()      # methods that change the object and return a value
        for w in want:
            m = self.methods[w]
            r = m.returns
            if isinstance(r, ast.Constant) and r.value is None:
                self.mutators.add(w)
            elif assigned(m.body, self.mutators).count("self"):
                self.mutvals.add(w)
            else:
                self.readers.add(w)


# the methods of `Index` that are translated, callees before callers
INDEX_METHODS = [
    "_reset", "invalidate",
    "_insert_fields", "_insert_measurements", "_insert_tags", "_insert_time", "insert",
    "_remove_fields", "_remove_measurements", "_remove_tags", "_remove_timestamps", "remove",
    "_update_fields", "_update_timestamps", "_update_measurements", "_update_tags", "update",
    "build",
    "get_field_keys", "get_field_values", "get_measurements", "get_tag_keys", "get_tag_values", "get_timestamps",
    "_search_fields", "_search_measurement", "_search_tags", "_search_timestamps", "_search_helper", "search",
    "valid", "__len__",
]

# the methods of `TinyFlux` that are translated (the list level: storage is the decoded view of its rows)
DATABASE_METHODS = ["_reset_database", "_remove_helper", "count", "contains",
                    "__len__", "get_field_keys", "get_field_values", "get_measurements", "get_tag_keys", "get_timestamps",
                    "search", "get", "reindex", "remove_all", "all", "remove", "drop_measurement", "get_tag_values"]
INDEX_READERS = ("get_field_keys", "get_field_values", "get_measurements", "get_tag_keys", "get_tag_values", "get_timestamps")


def generate_index(src: str) -> str:
    mod = ast.parse(src)
    node = next((n for n in mod.body if isinstance(n, ast.ClassDef) and n.name == "Index"), None)
    if node is None:
        raise Unsupported("class Index not found")
    cls = Cls(node, INDEX_METHODS)
    out = [
        "import TinyFlux.Py.Typed",
        "import TinyFlux.Spec.Basic",
        "import TinyFlux.Generated.Utils",
        "/-! GENERATED by tools/py2lean (class mode) from tinyflux/index.py — do not edit. -/",
        "set_option linter.unusedVariables false",
        "namespace TinyFlux.Generated.IndexImpl",
        "open TinyFlux.Py.Typed TinyFlux.Model TinyFlux.Spec",
        "",
        "/-- the attributes of `Index` (class-level annotations) -/",
        "structure Self where",
    ]
    for a, t in cls.attrs.items():
        out.append(f"  {a} : {t}")
    out.append("")
    # __init__: attribute := expression
    init = cls.methods.get("__init__")
    if init is None:
        raise Unsupported("Index.__init__ not found")
    f0 = Fn(cls, init)
    fields = []
    for s in init.body:
        if isinstance(s, ast.Expr) and isinstance(s.value, ast.Constant):
            continue
        if isinstance(s, ast.Assign) and len(s.targets) == 1 and _is_self_attr(s.targets[0]):
            fields.append(f"{s.targets[0].attr} := {f0.ex(s.value)}")
        else:
            raise Unsupported("Index.__init__: " + ast.dump(s))
    if sorted(x.split(" :=")[0] for x in fields) != sorted(cls.attrs):
        raise Unsupported("Index.__init__ does not assign exactly the annotated attributes")
    ps = " ".join(f"({p.arg} : {lean_type(p.annotation)})" for p in init.args.args[1:])
    out.append(f"def __init__ {ps} : Self :=\n  {{ " + ", ".join(fields) + " }\n")
    # the set algebra of `IndexResult` (its two attributes are the record `IndexResult` of Py/Typed.lean)
    rnode = next((n for n in mod.body if isinstance(n, ast.ClassDef) and n.name == "IndexResult"), None)
    if rnode is None:
        raise Unsupported("class IndexResult not found")
    rcls = Cls(rnode, ["__invert__", "__and__", "__or__"])
    if rcls.attrs != {"_items": "(List Nat)", "_index_count": "Nat"}:
        raise Unsupported(f"attributes of IndexResult: {rcls.attrs}")
    out.append("namespace IndexResultImpl\nabbrev Self := IndexResult\n")
    for name in ["__invert__", "__and__", "__or__"]:
        out.append(Fn(rcls, rcls.methods[name]).translate())
    out.append("end IndexResultImpl\n")
    for name in INDEX_METHODS:
        out.append(Fn(cls, cls.methods[name]).translate())
    out.append("end TinyFlux.Generated.IndexImpl")
    return "\n".join(out) + "\n"


def generate_database(src: str) -> str:
    mod = ast.parse(src)
    node = next((n for n in mod.body if isinstance(n, ast.ClassDef) and n.name == "TinyFlux"), None)
    if node is None:
        raise Unsupported("class TinyFlux not found")
    cls = Cls(node, DATABASE_METHODS)
    out = [
        "import TinyFlux.Generated.IndexImpl",
        "/-! GENERATED by tools/py2lean (class mode) from tinyflux/database.py — do not edit. -/",
        "set_option linter.unusedVariables false",
        "namespace TinyFlux.Generated.DatabaseImpl",
        "open TinyFlux.Py.Typed TinyFlux.Model TinyFlux.Spec TinyFlux.Generated",
        "",
        "/-- what the translated methods use of objects that are not translated: query objects (`Q`) and `Index.search` -/",
        "structure Ext (Q : Type) where",
        "  index_is_exact : Q → Bool                       -- `index_is_exact(query)`",
        "  meas_eq : Option String → Q                     -- `MeasurementQuery() == measurement`",
        "  qand : Q → Q → Q                                -- `mq & query`",
        "  call : Q → Point → M Bool                       -- `query(point)`",
        "  index_search : IndexImpl.Self → Q → M IndexResult   -- `self._index.search(query)`",
        "  is_query : Q → Bool := fun _ => true            -- `isinstance(query, (SimpleQuery, CompoundQuery))`",
        "",
        "/-- the attributes of `TinyFlux` (class-level annotations) -/",
        "structure Self where",
    ]
    for a, t in cls.attrs.items():
        out.append(f"  {a} : {t}")
    out += ["", "section", "variable {Q : Type} (ext : Ext Q)", ""]
    for name in DATABASE_METHODS:
        out.append(Fn(cls, cls.methods[name]).translate())
    out += ["end", "end TinyFlux.Generated.DatabaseImpl"]
    return "\n".join(out) + "\n"


if __name__ == "__main__":
    import sys

    print((generate_database if "database" in sys.argv[1] else generate_index)(open(sys.argv[1]).read()))
