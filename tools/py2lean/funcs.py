"""Function mode of the translator: a whitelisted subset of Python -> Lean.

Every supported statement / expression is translated into the `Except PyErr V`
monad over the dynamically typed value universe of `TinyFlux/Py/Basic.lean`, so
that Python's run-time errors, negative-index wrap-around, truthiness tests and
short-circuit evaluation are part of the translation instead of being assumed
away.  Anything outside the subset raises `Unsupported` (an extraction error;
the check then falls into its failing-input search instead of guessing).
"""
import ast


class Unsupported(Exception):
    pass


_CMP = {
    ast.Eq: "eq",
    ast.NotEq: "ne",
    ast.Lt: "lt",
    ast.LtE: "le",
    ast.Gt: "gt",
    ast.GtE: "ge",
}


def expr(e):
    """Return a Lean term of type `Except PyErr V`."""
    if isinstance(e, ast.Name):
        return f"(pure {e.id})"
    if isinstance(e, ast.Constant):
        if e.value is None:
            return "(pure V.none)"
        if isinstance(e.value, bool):
            return f"(pure (V.bool {'true' if e.value else 'false'}))"
        if isinstance(e.value, int):
            return f"(pure (V.int {e.value}))"
        raise Unsupported(ast.dump(e))
    if isinstance(e, ast.Call):
        f = e.func
        if e.keywords:
            raise Unsupported(ast.dump(e))
        if (
            isinstance(f, ast.Attribute)
            and isinstance(f.value, ast.Name)
            and f.value.id == "bisect"
            and f.attr in ("bisect_left", "bisect_right")
            and len(e.args) == 2
        ):
            a, b = e.args
            return f"(do Py.{f.attr} (← {expr(a)}) (← {expr(b)}))"
        if isinstance(f, ast.Name) and f.id == "len" and len(e.args) == 1:
            return f"(do Py.len (← {expr(e.args[0])}))"
        raise Unsupported(ast.dump(e))
    if isinstance(e, ast.Subscript):
        if isinstance(e.slice, ast.Slice):
            raise Unsupported(ast.dump(e))
        return f"(do Py.getItem (← {expr(e.value)}) (← {expr(e.slice)}))"
    if isinstance(e, ast.BinOp) and isinstance(e.op, (ast.Sub, ast.Add)):
        op = "sub" if isinstance(e.op, ast.Sub) else "add"
        return f"(do Py.{op} (← {expr(e.left)}) (← {expr(e.right)}))"
    if isinstance(e, ast.UnaryOp) and isinstance(e.op, ast.USub):
        return f"(do Py.sub (pure (V.int 0)) (← {expr(e.operand)}))"
    if isinstance(e, ast.UnaryOp) and isinstance(e.op, ast.Not):
        return f"(do pure (V.bool (!Py.truthy (← {expr(e.operand)}))))"
    if isinstance(e, ast.Compare) and len(e.ops) == 1:
        t = type(e.ops[0])
        if t in (ast.Is, ast.IsNot) and (
            isinstance(e.comparators[0], ast.Constant)
            and e.comparators[0].value is None
        ):
            neg = "!" if t is ast.IsNot else ""
            return f"(do pure (V.bool ({neg}((← {expr(e.left)}) == V.none))))"
        if t not in _CMP:
            raise Unsupported(ast.dump(e))
        return (
            f"(do Py.{_CMP[t]} (← {expr(e.left)}) (← {expr(e.comparators[0])}))"
        )
    if isinstance(e, ast.BoolOp) and len(e.values) == 2:
        a, b = e.values
        if isinstance(e.op, ast.And):  # a and b == b if truthy(a) else a
            return (
                f"(do let a ← {expr(a)}; if Py.truthy a then {expr(b)} else pure a)"
            )
        return f"(do let a ← {expr(a)}; if Py.truthy a then pure a else {expr(b)})"
    raise Unsupported(ast.dump(e))


def block(stmts, ind):
    if not stmts:
        return ind + "pure V.none"  # falling off the end returns None
    s, rest = stmts[0], stmts[1:]
    if isinstance(s, ast.Expr) and isinstance(s.value, ast.Constant):
        return block(rest, ind)  # docstring
    if isinstance(s, ast.Pass):
        return block(rest, ind)
    if (
        isinstance(s, ast.Assign)
        and len(s.targets) == 1
        and isinstance(s.targets[0], ast.Name)
    ):
        return f"{ind}let {s.targets[0].id} ← {expr(s.value)}\n" + block(rest, ind)
    if isinstance(s, ast.AnnAssign) and isinstance(s.target, ast.Name) and s.value:
        return f"{ind}let {s.target.id} ← {expr(s.value)}\n" + block(rest, ind)
    if isinstance(s, ast.Return):
        return ind + (expr(s.value) if s.value else "pure V.none")
    if isinstance(s, ast.If):
        body_returns = isinstance(s.body[-1], ast.Return)
        if not s.orelse and body_returns:
            return (
                f"{ind}if Py.truthy (← {expr(s.test)}) then do\n"
                f"{block(s.body, ind + '  ')}\n{ind}else do\n"
                f"{block(rest, ind + '  ')}"
            )
        if s.orelse and body_returns and isinstance(s.orelse[-1], ast.Return):
            if rest:
                raise Unsupported("code after if/else that both return")
            return (
                f"{ind}if Py.truthy (← {expr(s.test)}) then do\n"
                f"{block(s.body, ind + '  ')}\n{ind}else do\n"
                f"{block(s.orelse, ind + '  ')}"
            )
        if s.orelse and body_returns:
            # if c: ...return  else: stmts ; rest   ==  else-branch continues
            return (
                f"{ind}if Py.truthy (← {expr(s.test)}) then do\n"
                f"{block(s.body, ind + '  ')}\n{ind}else do\n"
                f"{block(list(s.orelse) + list(rest), ind + '  ')}"
            )
    raise Unsupported(ast.dump(s))


def translate_function(fn: ast.FunctionDef) -> str:
    if fn.args.vararg or fn.args.kwarg or fn.args.kwonlyargs or fn.args.defaults:
        raise Unsupported(f"signature of {fn.name}")
    args = " ".join(f"({a.arg} : V)" for a in fn.args.args)
    return f"def {fn.name} {args} : Except PyErr V := do\n{block(fn.body, '  ')}\n"


def generate_utils(src: str) -> str:
    mod = ast.parse(src)
    out = [
        "import TinyFlux.Py.Basic",
        "/-! GENERATED by tools/py2lean from tinyflux/utils.py — do not edit. -/",
        "set_option linter.unusedVariables false",
        "namespace TinyFlux.Generated",
        "open TinyFlux.Py",
        "",
    ]
    found = []
    for n in mod.body:
        if isinstance(n, ast.FunctionDef) and n.name.startswith("find_"):
            out.append(translate_function(n))
            found.append(n.name)
    want = ["find_eq", "find_lt", "find_le", "find_gt", "find_ge"]
    missing = [w for w in want if w not in found]
    if missing:
        raise Unsupported(f"missing functions in utils.py: {missing}")
    out.append("end TinyFlux.Generated")
    return "\n".join(out) + "\n"
