#!/bin/sh
# Development tool: tools/sweep.sh <seed> [<evidence dir>] — all 18 quick checks on the unchanged tree, 6 at a time (≈ 5–7 min);
# with an evidence dir the committed evidence/ is left alone. Logs under /tmp/verif_sweep_<seed>/.
seed=$1; ev=$2; out=/tmp/verif_sweep_$seed; rm -rf $out; mkdir -p $out
cd /verif
python3 tools/py2lean >/dev/null
( cd lean && lake build TinyFlux specdriver modeldriver $(for i in 01 02 03 04 05 06 07 08 09 10 11 12 13 14 15 16 17 18; do printf "TinyFlux.Audit.C%s " $i; done) 2>&1 | grep -E "error|✖" | head )
for p in C12 C13 C01 C02 C03 C04 C05 C06 C07 C08 C09 C10 C11 C14 C15 C16 C17 C18; do echo $p; done | \
  xargs -P 6 -I{} sh -c "start=\$(date +%s); VERIF_SEED=$seed ${ev:+VERIF_EVIDENCE_DIR=$ev} ./check {} --tier quick > $out/{}.log 2>&1; echo \"{} exit=\$? \$((\$(date +%s)-start))s\" >> $out/summary"
sort $out/summary
grep -h "^VIOLATION\|^INFRA" $out/*.log
