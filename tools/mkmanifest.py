"""Regenerate MANIFEST.json from the table below (keeps it valid while checks are added)."""
import json
import os

VERIF = os.path.dirname(os.path.dirname(os.path.abspath(__file__)))

TB = ("Trusted: Lean 4.33 kernel + propext/Classical.choice/Quot.sound (audited on every run, no sorry/native_decide/own axioms); "
      "the Spec (lean/TinyFlux/Spec) as the formal reading of the property; tools/py2lean (function, table and class mode) and lean/TinyFlux/Py (Basic, Typed); "
      "the correspondence harness and the assumption it samples (the hand-written Model behaves like the code on inputs it did not run). ")

CHECKS = {
    "C01": dict(
        text="Refinement theorem proved in Lean 4 for every history, query and measurement filter: the model of database.py/index.py (index path, scan path, shortcuts) returns exactly Spec.search/count/contains/get/select of the stored contents; sorted results are a stable time sort, unsorted ones a sublist of storage. The model is tied to the code by generated definitions (find_*; index.py and TinyFlux.search / get / count / contains of database.py translated statement by statement into Lean on every run and proved to be the Model's operations — Index.search, the leaf searches, the time search over find_*, and the four reads over them: Props/C01Mirror.lean over Mirror/*) and by differential runs of histories in the four configurations.",
        note=TB + "Guard: measurement filter != '' (known finding). Stored points assumed Good (dict-shaped, unchanged by the storage codec — C05). float timestamps modelled as integer microseconds (order embedding on 1700-2240, C08).",
        tech="Lean 4 refinement proof (index/database model -> list spec), mirror theorems over index.py translated into Lean on every run + history-level differential correspondence", ref="DESIGN.md 5/C01"),
    "C02": dict(
        text="Proved in Lean 4: remove/drop_measurement/remove_all leave exactly the non-selected points (a sublist of storage, unmodified, in order), return the number selected, a removal matching nothing is the identity, and the index invariant is preserved so all later operations are covered by C01/C07. Tied to the code by translation (TinyFlux._remove_helper, _reset_database and Index.remove/update translated statement by statement on every run and proved to be the Model's removeHelper: Mirror/Database.lean, Props/C02Mirror.lean) and by differential runs of histories.",
        note=TB + "Guard: measurement argument != '' (known finding). List level; the file level is C04/C12.",
        tech="Lean 4 refinement proof + history-level differential correspondence", ref="DESIGN.md 5/C02"),
    "C03": dict(
        text="Proved in Lean 4: update/update_all change exactly the selected points according to Spec.upd (replace time/measurement, merge tags/fields key by key, unset afterwards), never move or drop points, count the points whose content changed, and preserve the invariant; merge lemmas (never drops keys, unset after set) proved on the Spec. Tied to the code by differential runs with static and callable arguments; the index rebuild that ends a changing update is proved over the translated Index.build (Props/C03Mirror.lean).",
        note=TB + "Guard: measurement argument != '' (known finding); what the update produces must be storable (OpOK). User callables are arbitrary Lean functions in the theorems and a finite vocabulary in the runs.",
        tech="Lean 4 refinement proof + history-level differential correspondence", ref="DESIGN.md 5/C03"),
    "C04": dict(
        text="Proved in Lean 4 over a two-file I/O model: after the complete step list of every operation the rows the OS holds for the database path are exactly the new contents (without flush_on_insert: once the handle is closed or the next read seeks), appends land at end of file wherever a read left the handle, the temp file is gone. The step lists are tied to the code by comparing, for every operation of generated histories, the I/O calls recorded by run-time proxies with the model's prediction; the real file is decoded by an independent reader after every operation in an encodings x dialects x flush grid with adversarial strings, and after close / read-only reopen.",
        note=TB + "Rows are abstract in the I/O model (their text is C05); text codecs and the csv module are trusted (one codec / dialect on both sides); OS semantics as stated in Model/IO.lean.",
        tech="Lean 4 proof over an I/O step model + recorded-trace correspondence + independent file decoding", ref="DESIGN.md 5/C04"),
    "C12": dict(
        text="Partial. Proved in Lean 4 for every prefix of the I/O steps of insert / remove / update / remove_all / reads: what survives a process death (only what reached the OS) is the old or the new contents (insert_multiple: old plus a prefix); a counter-example theorem shows the truncating copy of the pinned commit is not atomic. Validated by recorded traces and by really killing a forked child (os._exit) at every I/O boundary of sampled operations and decoding the file it leaves.",
        note=TB + "Partial: power-loss durability (fsync), torn single writes of rows larger than the stdio buffer and file-system specifics are outside the model; os.replace atomicity is trusted.",
        tech="Lean 4 proof over crash prefixes of an I/O step model + real process deaths at every recorded boundary", ref="DESIGN.md 5/C12"),
    "C13": dict(
        text="Partial. Proved in Lean 4: after any prefix of an operation's I/O steps followed by the finally-cleanup the database file holds the old or the new contents (inserts: old plus a prefix, counting rows still buffered) and no temp file remains. On the real code an OSError is injected at every I/O call index of sampled operations (before effect; after effect for flush/fsync/close): the error must reach the caller, the file must decode to old/new, and the live object must answer consistently with its storage or fail.",
        note=TB + "Partial as C12. The live-object clause (index invalidated or handle closed) is validated by fault injection, not proved.",
        tech="Lean 4 proof over fault prefixes of an I/O step model + OSError injection at every recorded call", ref="DESIGN.md 5/C13"),
    "C15": dict(
        text="Partial. (T) over the access-mode tuples and decorator stacks regenerated from the source, by kernel evaluation: in mode 'r' every mutating method's gate raises before temp_storage_op, i.e. before any I/O; every query/getter is a read_op. (C) proved over the step lists: reads make no mutating call, a no-op remove/update never touches the database file, every temp file is removed also when the operation raises. On the real code: file bytes and listings of the temp and database directories before/after every call, access modes r/r+/a/w+.",
        note=TB + "Partial: the OS is not modelled beyond the two files; directory listings are observations of the real runs.",
        tech="Lean 4 proof over extracted mode/decorator tables and I/O step model + byte/listing observation", ref="DESIGN.md 5/C15"),
    "C16": dict(
        text="Partial. Proved in Lean 4: the I/O calls of an insert are a function of the inserted rows only (5 per point, 2 without flush_on_insert), contain no read and no rewrite, the file afterwards is the previous content followed by the new rows at every intermediate point. Recorded traces of the real code are compared with the prediction for every insert of generated histories and for database sizes 0..1000 (5000 thorough) after reads that leave the handle at start / middle / end; file bytes before are a prefix of file bytes after.",
        note=TB + "Partial: cost is counted in Python-level I/O calls, not syscalls or time.",
        tech="Lean 4 proof over an I/O step model + recorded-trace correspondence across database sizes", ref="DESIGN.md 5/C16"),
    "C05": dict(
        text="Row-level round trip proved in Lean 4 for all strings in every slot and both prefix styles over constants and sniff positions regenerated from point.py; injectivity as a corollary; the cases the on-disk format cannot carry are an explicit guard (Codable) with counter-example theorems, recorded as known findings. The codec model is compared cell by cell with the real serializer, and whole files are round-tripped through a real CSVStorage in 6 dialects x 4 encodings.",
        note=TB + "str(float)/float(), isoformat/fromisoformat, the csv module and text codecs are parameters with stated laws (trusted stdlib behaviour), supplied to the model as tables computed by the real stdlib.",
        tech="Lean 4 proof over extracted constants + differential codec correspondence", ref="DESIGN.md 5/C05"),
    "C06": dict(
        text="Invariant proved in Lean 4 by induction over all histories (incl. raising operations, reopen): a valid index represents the current storage; a rebuilt index represents it too and every answer is a function of what is represented, hence equal. In-order insert keeps validity, out-of-order insert only invalidates, reads leave a valid index untouched. Tied to the code by translation — build / insert / remove / update / _reset / invalidate of index.py are translated statement by statement into Lean on every run (Generated/IndexImpl.lean) and proved never to raise and to keep the index equal to the index of the stored points (Props/C06Mirror.lean over Mirror/*) — and by histories with ~40 direct index probes compared with a rebuilt index after every operation.",
        note=TB + "Index maps flattened in the model (invisible in answers); answers compared, not attribute dumps.",
        tech="Lean 4 invariant proof (Represents/Inv) over the hand model and over index.py translated into Lean on every run + index-probe differential correspondence", ref="DESIGN.md 5/C06"),
    "C07": dict(
        text="Proved in Lean 4: every getter, len, iteration, all() and the Measurement-local twins return the Spec one-liner over the stored contents on the index path and on the scan path. Tied to the code by translation (the six getters of index.py, and TinyFlux.__len__ / get_measurements / get_field_keys / get_field_values / get_tag_keys / get_timestamps of database.py, translated on every run, are proved equal to the Model's answers on every state the translated maintenance methods produce, Props/C07Mirror.lean) and by differential runs of histories.",
        note=TB + "Guard: measurement argument != '' (known finding). CSV record counting is checked at the file level (C04). Recorded finding: a storage read nested in an iteration over CSV storage cuts the iteration short (one shared file handle).",
        tech="Lean 4 refinement proof + history-level differential correspondence", ref="DESIGN.md 5/C07"),
    "C08": dict(
        text="Proved in Lean 4: normalising to UTC keeps the instant, so the stored value depends on the instant only; a time comparison in a query is the integer comparison of instants at microsecond resolution; any rounding of microsecond instants to a grid of >= 2^20 ticks per second is strictly monotone and invertible (so comparisons and conversions through the index's float keys agree with the instants — that binary64 is such a grid for 1700-2240 is the trusted IEEE fact); sorted results are a stable sort; an updated time is the instant the argument denotes. The real code is run in a subprocess per process time zone {UTC, America/Los_Angeles, Australia/Lord_Howe, Asia/Kathmandu} on instants at range ends, epoch, 2038, 2106, DST transitions, adjacent microseconds and ties, presented in many offsets or as naive local time, through insert / update static+callable / reopen / time queries / get_timestamps on both paths, against the instant-only Model and Spec; naive values in DST gaps and folds against zoneinfo.",
        note=TB + "The tz database, datetime.timestamp()/fromtimestamp(), astimezone and ISO text are parameters with stated laws (trusted stdlib), exercised not verified.",
        tech="Lean 4 proof (instant arithmetic, float-grid monotonicity) + multi-timezone differential correspondence", ref="DESIGN.md 5/C08"),
    "C14": dict(
        text="Over acceptance predicates translated from the isinstance / is None expressions of validate_tags, validate_fields and the setters, and a table recording that each API entry point (constructor, setters, insert, static update arguments, update callables) validates each slot before the store — both regenerated from the source — proved by kernel evaluation over all ten modelled Python types and six slots: a value is accepted iff it is well-typed for its slot (bool is not a number), every entry point validates every slot, hence nothing ill-typed is stored. The real code is run on the full battery entry x slot x type (several values per type, both storages) and the types of everything all() returns are checked.",
        note=TB + "Entry-point coverage is a table of syntactic patterns (validator call precedes the store); Python's isinstance semantics (bool subclass of int) is restated in the translator.",
        tech="Lean 4 proof over extracted validators (decide over the finite type x slot table) + exhaustive battery on the real code", ref="DESIGN.md 5/C14"),
    "C09": dict(
        text="Proved in Lean 4 for every query of any depth with arbitrary user predicates / map functions / regex predicates and every point: evaluation (model of queries.py with Python's exceptions explicit) never raises and equals the documented meaning; ~, &, | are boolean NOT, AND, OR. The model is compared with the real query objects on ~770 expressions x 360 points exhaustively.",
        note=TB + "re is a parameter (String -> Bool); user functions pure and total where the property requires no exception.",
        tech="Lean 4 proof (evaluation = semantics) + exhaustive expression x point correspondence", ref="DESIGN.md 5/C09"),
    "C10": dict(
        text="(T) Over the forwarding table regenerated from measurement.py/database.py, proved by kernel evaluation: every Measurement method calls its namesake with each parameter bound to the parameter of the same name and the measurement bound to self._name. (C) Proved on the model: handle operations see and modify only their measurement, insert stores under the handle's name. Differential runs call the real handles on mixed-measurement histories.",
        note=TB + "Guard: name != '' (known finding).",
        tech="Lean 4 proof over extracted forwarding table + refinement corollaries + differential correspondence", ref="DESIGN.md 5/C10"),
    "C11": dict(
        text="Proved in Lean 4: a raising insert_multiple has stored exactly the prefix before the offending element, a raising update leaves storage unchanged, and after any operation (value or error) the state satisfies the invariant and holds the Spec's contents, so all later operations behave normally. Differential runs inject non-Points and raising/invalid callables at every position in both storages.",
        note=TB + "I/O errors are C13's subject; here errors come from arguments and user callables.",
        tech="Lean 4 refinement proof (error cases) + malformed-stream differential correspondence", ref="DESIGN.md 5/C11"),
    "C17": dict(
        text="Proved in Lean 4 over query syntax and the hash-tuple tables regenerated from queries.py: equal hashes come from queries with the same truth value on every point (every semantic parameter occurs in its tuple), & and | are commutative w.r.t. ==, queries with map / bare noop are never equal. All pairs of ~350 expressions are compared on the real objects (==, hash, evaluation on 360 points) and with the model's ==.",
        note=TB + "Python's hash/eq contract on tuples, frozensets, str, numbers, datetimes is trusted (equal keys have equal hashes).",
        tech="Lean 4 proof over extracted hash tuples + exhaustive pairwise correspondence", ref="DESIGN.md 5/C17"),
    "C18": dict(
        text="Full characterisation of find_eq/lt/le/gt/ge proved in Lean 4 for every sorted list and probe, about definitions regenerated from utils.py by the translator on every run; the translation is validated by running the real functions, the generated ones and an independent executable characterisation on an exhaustive small universe.",
        note=TB + "List elements modelled as integers (any non-NaN totally ordered type embeds).",
        tech="Lean 4 proof over translated source (py2lean) + exhaustive differential validation", ref="DESIGN.md 5/C18"),
}

PENDING_REASON = "check not built yet (work in progress; see DESIGN.md section 9 build order)"


def main():
    props = [json.loads(l) for l in open(os.path.join(VERIF, "properties.jsonl"))]
    enabled = json.load(open(os.path.join(VERIF, "tools", "enabled_checks.json")))
    checks = []
    for p in props:
        i = p["id"]
        if i in enabled and i in CHECKS:
            c = CHECKS[i]
            checks.append({
                "property_id": i,
                "quick_cmd": f"./check {i} --tier quick",
                "thorough_cmd": f"./check {i} --tier thorough",
                "evidence_file": f"evidence/{i}.json",
                "replay_cmd_template": "./check replay {path}",
                "engine": "lean-proof+correspondence",
                "level_claimed": {"category": "proof", "text": c["text"], "design_ref": c["ref"]},
                "level_note": c["note"],
                "technique": c["tech"],
            })
    na = [{"property_id": p["id"], "reason": PENDING_REASON} for p in props if p["id"] not in enabled]
    m = {
        "version": 1,
        "setup_cmd": "./setup.sh",
        "hooks": {
            "guard": "CITRUSVANILLA_TINYFLUX_VERIF",
            "enable": "none needed: the harness rebinds names inside tinyflux.storages at run time; there are no source hooks",
            "baseline_off_cmd": "cd /repo && /venv/bin/python -m pytest -ra -q -p no:cacheprovider --timeout=900",
            "source_commits": [],
            "add_only": True,
        },
        "engines": [{
            "name": "lean-proof+correspondence", "path": "check", "serves_properties": [c["property_id"] for c in checks],
            "kind_free_text": "Lean 4 theorems over a model regenerated from (tools/py2lean) and compared with (harness/) the source on every run",
        }],
        "checks": checks,
        "not_applicable": na,
        "notes": "See DESIGN.md. Known findings: known_findings.json.",
    }
    with open(os.path.join(VERIF, "MANIFEST.json"), "w") as f:
        json.dump(m, f, indent=1)
        f.write("\n")
    print("checks:", [c["property_id"] for c in checks], "pending:", [x["property_id"] for x in na])


if __name__ == "__main__":
    main()
