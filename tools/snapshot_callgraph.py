"""Development tool: write lean/TinyFlux/Model/CallGraph.lean — the listing of what each function of the modelled
modules uses, as of the source the Model was written against and validated on ($VERIF_REPO, default /repo).
Run only when the Model has been brought in line with a deliberate change of the code; the checks never run it."""
import os
import sys

HERE = os.path.dirname(os.path.abspath(__file__))
sys.path.insert(0, os.path.join(HERE, "py2lean"))
import tables  # noqa: E402

repo = os.environ.get("VERIF_REPO", "/repo")


def src(name):
    with open(os.path.join(repo, "tinyflux", name), encoding="utf-8") as f:
        return f.read()


HEADER = """/-! # What the modelled functions use

For every function of tinyflux's modules: the expressions it calls, the exception types it catches and raises,
whether it has a `finally` / `with` / `yield` — recorded (by `tools/snapshot_callgraph.py`) from the source the
Model was written against and validated on by the correspondence runs. `Generated/CallGraph.lean` is the same listing
regenerated from the current source on every run; every property proves the two equal for the classes its theorems
speak about (`Props/CxxState.lean`, `code_uses_the_modelled_primitives`). A method that calls something else —
a new helper, a bulk or batched path, `reindex()` inside insert, `shutil.copyfile`, `os.ftruncate`,
`str.splitlines`, `unicodedata.normalize`, `replace(tzinfo=…)` — or that catches other exceptions is code the
Model does not mirror, however rarely the new path is taken. The listing ignores statement order, conditions,
constants, comments and formatting. -/
"""
text = tables.render_callgraph(tables.callgraph_tables(src), "TinyFlux.Model.CallGraph", HEADER, orders=tables.order_tables(src))
out = os.path.join(os.path.dirname(HERE), "lean", "TinyFlux", "Model", "CallGraph.lean")
with open(out, "w", encoding="utf-8") as f:
    f.write(text)
print("wrote", out)
