#!/bin/sh
# Re-run every seeded change against the current machinery (development tool; ~30 min).
# First id = the property the change was written for; the others are checks that should / might also report.
cd "$(dirname "$0")/.." || exit 2
run() { n=$1; shift; echo "=== $n"; python3 tools/seed_mutant.py seeded/$n $n "$@" 2>&1 | grep -v "^WARNING"; }
run C01-m1 C01 C06 C11
run C01-m2 C01 C06
run C02-m1 C02 C04
run C02-m2 C02 C06 C01
run C03-m1 C03
run C03-m2 C03 C10
run C04-m1 C04 C16
run C04-m2 C04 C05 C02 C03
run C05-m1 C05 C04
run C05-m2 C05
run C06-m1 C06 C08
run C06-m2 C06 C02
run C07-m1 C07
run C07-m2 C07 C06
run C08-m1 C08 C06
run C08-m2 C08
run C09-m1 C09
run C09-m2 C09 C01
run C10-m1 C10 C07
run C10-m2 C10 C06
run C11-m1 C11
run C11-m2 C11 C06
run C12-m1 C12 C13
run C12-m2 C12 C15
run C13-m1 C13 C12
run C13-m2 C13
run C14-m1 C14 C11
run C14-m2 C14
run C15-m1 C15 C13
run C15-m2 C15
run C16-m1 C16 C04
run C16-m2 C16
run C17-m1 C17
run C17-m2 C17
run C18-m1 C18 C01
run C18-m2 C18
# round 2: changes designed to escape short random histories over small alphabets
run C01-r2m1 C01 C06
run C02-r2m1 C02 C06
run C02-r2m2 C02 C04
run C03-r2m1 C03 C05
run C03-r2m2 C03 C08
run C04-r2m1 C04 C16
run C04-r2m2 C04 C11
run C05-r2m1 C05 C04
run C05-r2m2 C05
run C06-r2m1 C06 C13
run C06-r2m2 C06
run C07-r2m1 C07 C06
run C07-r2m2 C07 C04
run C08-r2m1 C08
run C08-r2m2 C08 C01 C06
run C09-r2m1 C09
run C09-r2m2 C09
run C10-r2m1 C10 C07
run C10-r2m2 C10 C02
run C11-r2m1 C11 C06
run C11-r2m2 C11 C03
run C12-r2m1 C12 C15
run C12-r2m2 C12 C13
run C13-r2m1 C13 C11
run C13-r2m2 C13 C12
run C14-r2m1 C14 C03
run C14-r2m2 C14
run C15-r2m1 C15 C13
run C15-r2m2 C15 C03
run C16-r2m1 C16 C06
run C16-r2m2 C16 C04
run C17-r2m1 C17 C09
run C17-r2m2 C17
run C18-r2m1 C18
run C18-r2m2 C18 C01
# round 3: written against a description of the strengthened tester (sizes, dialects, zones, fault injection, footprint)
run C01-r3m1 C01 C06
run C01-r3m2 C01
run C02-r3m1 C02 C12
run C02-r3m2 C02 C06
run C03-r3m1 C03
run C03-r3m2 C03 C04
run C04-r3m1 C04 C05
run C04-r3m2 C04 C05
run C05-r3m1 C05 C04
run C05-r3m2 C05 C04
run C06-r3m1 C06
run C06-r3m2 C06 C04
run C07-r3m1 C07
run C07-r3m2 C07
run C08-r3m1 C08 C06
run C08-r3m2 C08 C01
run C09-r3m1 C09
run C09-r3m2 C09
run C10-r3m1 C10 C03
run C10-r3m2 C10
run C11-r3m1 C11
run C11-r3m2 C11 C06
run C12-r3m1 C12 C04
run C12-r3m2 C12 C13
run C13-r3m1 C13 C04
run C13-r3m2 C13
run C14-r3m1 C14
run C14-r3m2 C14
run C15-r3m1 C15
run C15-r3m2 C15
run C16-r3m1 C16
run C16-r3m2 C16
run C17-r3m1 C17 C09
run C17-r3m2 C17
run C18-r3m1 C18 C01
run C18-r3m2 C18 C01
# round 4: written against the call-graph obligation too (logic-only changes)
run C01-r4m1 C01 C08
run C01-r4m2 C01 C09
run C02-r4m1 C02 C04
run C02-r4m2 C02 C13
run C03-r4m1 C03
run C03-r4m2 C03 C08
run C04-r4m1 C04 C08
run C04-r4m2 C04 C06
run C05-r4m1 C05 C08
run C05-r4m2 C05 C04
run C06-r4m1 C06
run C06-r4m2 C06 C01
run C07-r4m1 C07
run C07-r4m2 C07 C10
run C08-r4m1 C08
run C08-r4m2 C08
run C09-r4m2 C09
run C10-r4m1 C10 C07
run C11-r4m1 C11
run C11-r4m2 C11
run C12-r4m1 C12
run C12-r4m2 C12
run C13-r4m1 C13
run C13-r4m2 C13 C06
run C14-r4m1 C14
run C14-r4m2 C14
run C15-r4m1 C15
run C15-r4m2 C15 C02
run C16-r4m1 C16 C04
run C16-r4m2 C16 C04
run C17-r4m1 C17
run C17-r4m2 C17
run C18-r4m1 C18 C06 C01
run C18-r4m2 C18 C06 C01
python3 tools/seeded_summary.py
