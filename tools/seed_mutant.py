"""Confirm a seeded change and run the checks against it (development tool).

    python3 tools/seed_mutant.py <dir with patch.diff demo.py notes.md> <name> <property> [<other checks to run>...]

In a scratch worktree of /repo (removed afterwards): the demo must pass on the clean tree, the patch
must apply, the unedited test-suite must pass with it, the demo must fail with it; then the quick
checks of the named property (and any further ones) are run with VERIF_REPO pointing at the worktree.
Everything is recorded in /verif/seeded/<name>/{patch.diff,demo.py,notes.md,meta.json}.
"""
import json
import os
import shutil
import signal
import subprocess
import sys
import tempfile

VERIF = os.path.dirname(os.path.dirname(os.path.abspath(__file__)))
PY = "/venv/bin/python"


def sh(cmd, cwd=None, env=None, timeout=3000):
    # a background job inherits SIGINT ignored, and Python then never raises KeyboardInterrupt: some demonstrations
    # deliver a real Ctrl-C to themselves
    p = subprocess.run(cmd, cwd=cwd, env=env, shell=isinstance(cmd, str), capture_output=True, text=True, timeout=timeout,
                       preexec_fn=lambda: signal.signal(signal.SIGINT, signal.SIG_DFL))
    return p.returncode, (p.stdout + p.stderr)


def main():
    src, name, prop = sys.argv[1], sys.argv[2], sys.argv[3]
    others = sys.argv[4:]
    wt = tempfile.mkdtemp(prefix="seed_", dir="/tmp")
    os.rmdir(wt)
    rc, out = sh(["git", "-C", "/repo", "worktree", "add", "-q", "--detach", wt, "HEAD"])
    assert rc == 0, out
    meta = {"property": prop, "name": name}
    evdir = tempfile.mkdtemp(prefix="seed_ev_", dir="/tmp")   # the evidence of a run against a changed tree is not evidence
    try:
        os.makedirs(os.path.join(wt, "MUTANTS", "x"))
        shutil.copy(os.path.join(src, "demo.py"), os.path.join(wt, "MUTANTS", "x", "demo.py"))
        rc0, o0 = sh([PY, "MUTANTS/x/demo.py"], cwd=wt)
        meta["demo_clean"] = {"exit": rc0, "tail": o0.strip().splitlines()[-1:] }
        rc, out = sh(["git", "-C", wt, "apply", os.path.abspath(os.path.join(src, "patch.diff"))])
        meta["applies"] = rc == 0
        if rc != 0:
            print("patch does not apply:", out)
            return 2
        rc, out = sh([PY, "-m", "pytest", "-q", "-p", "no:cacheprovider"], cwd=wt)
        meta["suite_with_change"] = out.strip().splitlines()[-1]
        rc1, o1 = sh([PY, "MUTANTS/x/demo.py"], cwd=wt)
        meta["demo_changed"] = {"exit": rc1, "tail": o1.strip().splitlines()[-3:]}
        confirmed = rc0 == 0 and rc1 != 0 and " passed" in meta["suite_with_change"] and "failed" not in meta["suite_with_change"]
        meta["confirmed"] = confirmed
        print("confirmed:", confirmed, meta["suite_with_change"], "| demo clean exit", rc0, "| demo changed exit", rc1)
        results = {}
        env = dict(os.environ, VERIF_REPO=wt, VERIF_EVIDENCE_DIR=evdir)
        for pid in [prop] + others:
            rc, out = sh(["./check", pid, "--tier", "quick"], cwd=VERIF, env=env)
            line = next((l for l in out.splitlines() if l.startswith("VIOLATION")), "")
            info = {"exit": rc, "line": line}
            rp = None
            for tok in line.split():
                if tok.startswith("replay="):
                    rp = os.path.join(VERIF, tok[len("replay="):])
            if rp and os.path.exists(rp):
                d = json.load(open(rp))
                info["replay_kind"] = d.get("kind")
                info["found_failing_input"] = d.get("found_failing_input")
                info["summary"] = str(d.get("what") or d.get("observed") or d.get("theorem_or_correspondence"))[:400]
                if "ops_sx" in d:
                    info["ops"] = [o[:200] for o in d["ops_sx"]][:8]
            results[pid] = info
            print(f"  check {pid}: exit={rc} {line}")
        meta["checks"] = results
        meta["detected_by"] = [k for k, v in results.items() if v["exit"] == 1]
        meta["needs"] = open(os.path.join(src, "notes.md")).read()[:1500] if os.path.exists(os.path.join(src, "notes.md")) else ""
        meta["ran"] = [f"git apply patch.diff in a scratch worktree of /repo HEAD; pytest; demo.py; VERIF_REPO=<worktree> ./check {p} --tier quick" for p in [prop] + others]
        dst = os.path.join(VERIF, "seeded", name)
        os.makedirs(dst, exist_ok=True)
        for f in ("patch.diff", "demo.py", "notes.md"):
            if os.path.exists(os.path.join(src, f)) and os.path.abspath(src) != os.path.abspath(dst):
                shutil.copy(os.path.join(src, f), os.path.join(dst, f))
        with open(os.path.join(dst, "meta.json"), "w") as f:
            json.dump(meta, f, indent=1)
        return 0
    finally:
        sh(["git", "-C", "/repo", "worktree", "remove", "--force", wt])
        shutil.rmtree(evdir, ignore_errors=True)
        sh(["python3", "tools/py2lean"], cwd=VERIF)


if __name__ == "__main__":
    sys.exit(main())
